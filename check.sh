#!/bin/bash
# ./check.sh <Cxx> <quick|thorough>   run one check against /repo's current tree
# ./check.sh replay <file>            re-execute one recorded violating case
# ./check.sh build [variants...]      only build the worker binaries
set -u
cd "$(dirname "$0")"
export VERIF_ROOT="$PWD"
export GOFLAGS=-mod=mod GOPROXY=off GOSUMDB=off GOTOOLCHAIN=local CGO_ENABLED=1
BIN="$VERIF_ROOT/.build/bin"

build_variant() {
  local v="$1" flags=()
  case "$v" in
    plain)    flags=() ;;
    race)     flags=(-race) ;;
    asan)     flags=(-asan) ;;
    checkptr) flags=(-gcflags=all=-d=checkptr) ;;
    *) echo "unknown variant $v" >&2; return 2 ;;
  esac
  mkdir -p "$BIN/$v"
  # build to a private name, then rename: concurrent checks never see a half-written binary
  local tmp="$BIN/$v/wsverif.$$"
  if ! go build -tags verif "${flags[@]}" -o "$tmp" ./cmd/wsverif 2>"$BIN/$v/build.$$.log"; then
    cat "$BIN/$v/build.$$.log" >&2; rm -f "$tmp" "$BIN/$v/build.$$.log"
    echo "BUILD FAILED for variant $v (does /repo still compile with -tags verif?)" >&2
    return 2
  fi
  rm -f "$BIN/$v/build.$$.log"
  mv -f "$tmp" "$BIN/$v/wsverif"
}

build_fuzz() {
  mkdir -p "$BIN/fuzz"
  local tmp="$BIN/fuzz/fuzz.test.$$"
  # -fuzz at build time switches coverage instrumentation on for the test binary
  if ! go test -c -tags verif -fuzz=Fuzz -o "$tmp" ./fuzz 2>"$BIN/fuzz/build.$$.log"; then
    cat "$BIN/fuzz/build.$$.log" >&2; rm -f "$tmp" "$BIN/fuzz/build.$$.log"
    echo "BUILD FAILED for the native fuzz targets" >&2
    return 2
  fi
  rm -f "$BIN/fuzz/build.$$.log"
  mv -f "$tmp" "$BIN/fuzz/fuzz.test"
}

variants_for() {
  # WSVERIF_ONLY_VARIANTS (selftests only): restrict the build variants, e.g. "plain"
  if [ -n "${WSVERIF_ONLY_VARIANTS:-}" ]; then echo $WSVERIF_ONLY_VARIANTS; return; fi
  case "$1" in
    C01|C03) echo plain asan checkptr ;;
    C07)     echo plain asan checkptr ;;
    C11)     echo plain race ;;
    *)       echo plain ;;
  esac
}

case "${1:-}" in
  build)
    shift
    vs=("$@"); [ ${#vs[@]} -eq 0 ] && vs=(plain race asan checkptr)
    for v in "${vs[@]}"; do build_variant "$v" || exit 2; done
    exit 0 ;;
  replay)
    build_variant plain || exit 2
    v=$(python3 -c "import json,sys;print(json.load(open(sys.argv[1])).get('variant') or 'plain')" "$2" 2>/dev/null || echo plain)
    [ "$v" != plain ] && { build_variant "$v" || exit 2; }
    exec "$BIN/$v/wsverif" replay "$2" ;;
  C[0-9][0-9])
    id="$1"; tier="${2:-quick}"
    [ -n "${VERIF_TIER:-}" ] && [ -z "${2:-}" ] && tier="$VERIF_TIER"
    for v in $(variants_for "$id"); do build_variant "$v" || exit 2; done
    if [ "$id" = C07 ] && [ "$tier" = thorough ]; then build_fuzz || exit 2; fi
    export WSVERIF_BINDIR="$BIN"
    exec "$BIN/plain/wsverif" run "$id" "$tier" ;;
  *)
    echo "usage: $0 <Cxx> <quick|thorough> | replay <file> | build [variants]" >&2; exit 2 ;;
esac
