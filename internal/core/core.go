// Package core defines what a monitor (property check) looks like to the
// runner and how a case reports what it observed.
package core

import (
	"encoding/json"
	"fmt"
	"hash/fnv"
	"sort"

	"verif/internal/gen"
)

// Violation is one observed refutation of a property.
type Violation struct {
	// Signature names the salient features of the failing case; it is what
	// known_findings.json entries are matched against.
	Signature string      `json:"signature"`
	What      string      `json:"what"`
	Detail    interface{} `json:"detail,omitempty"`
	Idx       int         `json:"idx"`
	Variant   string      `json:"variant,omitempty"`
}

// Out collects what one case (possibly many sub-evaluations) observed.
type Out struct {
	Evals        int64
	Hashes       []uint64
	Counters     map[string]int64
	Samples      []interface{}
	Viols        []Violation
	Inconclusive int64
	Notes        []string
	MaxSamples   int
	// OnEval, when set by the worker, is called at every evaluation (the watchdog's heartbeat)
	OnEval func() `json:"-"`
}

func NewOut() *Out { return &Out{Counters: map[string]int64{}, MaxSamples: 2} }

func Hash(s string) uint64 {
	h := fnv.New64a()
	h.Write([]byte(s))
	return h.Sum64()
}

// Eval records one evaluation; sig is its canonical descriptor (distinctness is
// decided on its hash) and nontrivial says whether it counts as non-trivial.
func (o *Out) Eval(sig string, nontrivial bool) {
	if o.OnEval != nil {
		o.OnEval()
	}
	o.Evals++
	if nontrivial {
		o.Hashes = append(o.Hashes, Hash(sig))
	}
}

// EvalH is Eval with a precomputed hash.
func (o *Out) EvalH(h uint64, nontrivial bool) {
	if o.OnEval != nil {
		o.OnEval()
	}
	o.Evals++
	if nontrivial {
		o.Hashes = append(o.Hashes, h)
	}
}

func (o *Out) Count(name string, n int64) { o.Counters[name] += n }

func (o *Out) Sample(x interface{}) {
	if len(o.Samples) < o.MaxSamples {
		o.Samples = append(o.Samples, x)
	}
}

func (o *Out) Violate(sig, what string, detail interface{}) {
	if len(o.Viols) < 20 {
		o.Viols = append(o.Viols, Violation{Signature: sig, What: what, Detail: detail})
	}
	o.Counters["violations_raw"]++
}

func (o *Out) Inconcl(note string) {
	o.Inconclusive++
	if len(o.Notes) < 5 {
		o.Notes = append(o.Notes, note)
	}
}

// Ctx is what a case gets.
type Ctx struct {
	Seed    uint64
	Tier    string
	Variant string
	Prop    string
	Idx     int
	R       *gen.R
	Replay  bool
	// Beat, when the property sets BeatTimeoutS, is called by the case between its
	// executions; the worker's watchdog then also fires when no beat came for that long.
	Beat func()
}

func (c *Ctx) Thorough() bool { return c.Tier == "thorough" }

// Prop is one registered monitor.
type Prop struct {
	ID    string
	Level string // MANIFEST category
	Rule  string
	// Variants lists the build variants the check uses ("plain" first).
	Variants func(tier string) []string
	// Cases gives the number of case indices for a tier and variant.
	Cases func(tier, variant string) int
	// Run executes case idx.
	Run func(ctx *Ctx, out *Out)
	// Exhaustive reports whether the enumerated part is complete at this tier.
	Exhaustive  bool
	Assumptions []string
	// Explanation goes into coverage.explanation.
	Explanation string
	// Required lists counters that must be > 0 for the run to count as having
	// observed anything (otherwise exit 2, infrastructure failure).
	Required []string
	// CaseTimeoutS overrides the per-case watchdog (seconds).
	CaseTimeoutS int
	// BeatTimeoutS > 0: a case that does not call Ctx.Beat for this long (x3 in the
	// sanitizer builds, x2 in the isolated re-run) is treated as hung
	BeatTimeoutS int
	// MaxWorkers bounds parallel workers (0 = 16).
	MaxWorkers int
}

var Registry = map[string]*Prop{}

func Register(p *Prop) {
	if _, dup := Registry[p.ID]; dup {
		panic("duplicate property " + p.ID)
	}
	Registry[p.ID] = p
}

func IDs() []string {
	var ids []string
	for id := range Registry {
		ids = append(ids, id)
	}
	sort.Strings(ids)
	return ids
}

// J renders any value as compact JSON (for signatures and samples).
func J(v interface{}) string {
	b, err := json.Marshal(v)
	if err != nil {
		return fmt.Sprintf("%+v", v)
	}
	return string(b)
}

// Trunc shortens a byte slice for display.
func Trunc(b []byte, n int) string {
	if len(b) <= n {
		return fmt.Sprintf("%x", b)
	}
	return fmt.Sprintf("%x...(%d bytes)", b[:n], len(b))
}

func PlainOnly(string) []string { return []string{"plain"} }
