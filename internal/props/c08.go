package props

import (
	"bytes"
	"errors"
	"fmt"
	"io"
	"net"
	"sync"
	"time"

	ws "github.com/gorilla/websocket"

	"verif/internal/core"
	"verif/internal/wire"
	"verif/internal/xport"
)

func init() {
	core.Register(&core.Prop{
		ID:    "C08",
		Level: "exploration",
		Rule: "two families: (a) COMPLETE enumeration of the close codes that must be accepted (1000-1003, 1007-1011, 3000-4999) x reason length {none, 0, 1, 123 bytes UTF-8} x role, each after a short prefix; " +
			"(b) seeded streams from the independent encoder with ping/pong/close at every kind of position (before, between and after fragments, back to back, in the part the application abandons) x role x compression x read program x handler mode (default handlers | custom handler failing at the k-th control frame); " +
			"a third of the client-role executions build the connection with the real Dialer.Dial, the stream glued behind the 101 reply; (c) every tenth case: pings arrive while other goroutines call WriteControl and write data through a dawdling transport; every pong on the wire must carry the payload of exactly one received ping; " +
			"distinct = enumerated cell or hash(stream, execution); non-trivial = stream holds a control frame between fragments of a message, or a close",
		Variants: core.PlainOnly,
		Cases: func(tier, variant string) int {
			if tier == "thorough" {
				return c08EnumCases + 400000
			}
			return c08EnumCases + 12000
		},
		Run:          runC08,
		BeatTimeoutS: 90,
		Required:     []string{"handler_calls_checked", "pongs_checked", "close_echoes_checked", "control_between_fragments", "concurrent_pong_runs", "connections_built_by_dial_with_frames_behind_the_reply", "streams_read_under_an_exactly_sufficient_read_limit", "streams_read_through_joinmessages"},
		Assumptions: []string{
			"pong and close echoes of the default handlers are demanded because nothing else holds the write lock in these single-goroutine executions",
			"byte-level ordering of handler calls relative to delivered data is judged for uncompressed messages; for compressed messages at message granularity",
		},
	})
}

var c08Codes []int

const c08PerCase = 40

var c08EnumCases int

func init() {
	for c := 1000; c <= 4999; c++ {
		if wire.ClassifyCloseCode(c) == wire.CodeValid {
			c08Codes = append(c08Codes, c)
		}
	}
	c08EnumCases = (len(c08Codes) + c08PerCase - 1) / c08PerCase
}

type c08Ev struct {
	Seq     int
	Kind    string // "data", "ping", "pong", "close"
	Msg     int    // data: message index
	Off, N  int    // data: byte range delivered
	Payload string
	Code    int
}

func runC08(ctx *core.Ctx, out *core.Out) {
	r := ctx.R
	if ctx.Idx < c08EnumCases {
		lo := ctx.Idx * c08PerCase
		for i := lo; i < lo+c08PerCase && i < len(c08Codes); i++ {
			for rl := 0; rl < 3; rl++ {
				for role := 0; role < 2; role++ {
					st := genStream(r, StreamOpts{FromClient: role == 1, MaxMsgs: 1, MaxSize: 40, Controls: true, Close: true, CloseCode: c08Codes[i], HasReason: true, Reason: []int{0, 1, 123}[rl]})
					out.Eval(fmt.Sprintf("enum|%d|%d|%d", c08Codes[i], rl, role), true)
					out.Count("close_codes_enumerated", 1)
					if !c08Exec(ctx, out, st, rdExec{RB: 4096, Chunk: r.Intn(xport.NChunkStyles), Mode: r.Intn(2), Server: role == 1}, -1) {
						return
					}
				}
			}
		}
		return
	}
	if ctx.Idx%10 == 9 {
		c08Concurrent(ctx, out)
		return
	}
	fromClient := r.Bool()
	comp := r.Chance(1, 4)
	st := genStream(r, StreamOpts{FromClient: fromClient, Comp: comp, MaxMsgs: 4, MaxSize: 600, Controls: true, CtlDen: 2, Close: r.Chance(2, 3), LongRuns: true})
	ex := rdExec{RB: r.BufSize(), Chunk: r.Intn(xport.NChunkStyles), Mode: r.Intn(4), Server: fromClient, Comp: comp} // 3 = everything through JoinMessages
	if ex.Mode == 2 {
		for i := range st.DataEvents() {
			if r.Bool() {
				ex.Aband = append(ex.Aband, i)
			}
		}
	}
	failAt := -1
	nctl := 0
	between := false
	for _, e := range st.Events {
		if e.Kind >= 8 {
			nctl++
		}
	}
	for _, d := range st.DataEvents() {
		for _, e := range st.Events {
			if e.Kind >= 8 && e.First > d.First && e.First < d.Last {
				between = true
			}
		}
	}
	if between {
		out.Count("control_between_fragments", 1)
	}
	if nctl > 0 && r.Chance(1, 4) {
		failAt = r.Intn(nctl)
	}
	hasClose := len(st.Events) > 0 && st.Events[len(st.Events)-1].Kind == 8
	out.Eval(fmt.Sprintf("%x|%s|%d", core.Hash(string(st.Bytes)), core.J(ex), failAt), between || hasClose)
	hist := 0
	if failAt < 0 && r.Chance(1, 2) {
		hist = 1 + r.Intn(3)
	}
	c08ExecH(ctx, out, st, ex, failAt, hist)
	if ctx.Idx%1499 == 0 {
		out.Sample(map[string]interface{}{"stream": st.Summary(), "exec": ex, "handler_fails_at_control": failAt})
	}
}

var errHandler = errors.New("verif: handler says no")

var errHandlerTimeout error = &xport.TimeoutErr{S: "verif: handler says its own write timed out"}

func c08Exec(ctx *core.Ctx, out *core.Out, st *Stream, ex rdExec, failAt int) bool {
	return c08ExecH(ctx, out, st, ex, failAt, 0)
}

// c08ExecH: hist 0 = fresh connection, 1 = the application has already sent its own
// close frame and keeps reading, 2 = every transport write fails.
func c08ExecH(ctx *core.Ctx, out *core.Out, st *Stream, ex rdExec, failAt int, hist int) bool {
	r := ctx.R
	// what a failing handler returns: a plain error, or (one case in four) an error that looks like
	// a timeout (an application handler may pass on the result of its own timed-out write)
	var errHandler error = errHandler
	if ctx.Idx%4 == 3 {
		errHandler = errHandlerTimeout
	}
	fail := func(sig, what string, log []c08Ev) bool {
		d := map[string]interface{}{"exec": ex, "stream": st.Summary(), "bytes": core.Trunc(st.Bytes, 500), "handler_fails_at_control": failAt, "history": []string{"fresh", "application sent its close first", "every transport write fails", "stale expired write deadline"}[hist]}
		if log != nil {
			if len(log) > 40 {
				log = log[:40]
			}
			d["event_log"] = log
		}
		out.Violate("C08:"+sig, what, d)
		return false
	}
	// frames after a close must never surface
	bytesIn := st.Bytes
	hasClose := len(st.Events) > 0 && st.Events[len(st.Events)-1].Kind == 8
	if hasClose {
		mk := func(op int, p string) wire.Frame {
			f := wire.Frame{Fin: true, Op: op, Masked: ex.Server, Payload: []byte(p)}
			if ex.Server {
				f.Key = [4]byte{9, 8, 7, 6}
			}
			return f
		}
		bytesIn = append(append([]byte(nil), st.Bytes...), wire.Encode([]wire.Frame{mk(9, markerPing), mk(1, markerText)})...)
	}
	chunks := xport.Rechunk(bytesIn, ex.Chunk, r)
	var nc *xport.Conn
	var c *ws.Conn
	head := 0
	if viaDial := !ex.Server && ctx.Idx%3 == 1; viaDial {
		// a client connection built by the real Dialer.Dial: the frames follow the
		// server's 101 reply directly, the first chunk in the same transport read
		nc = xport.New(nil)
		extra := ""
		if ex.Comp {
			extra = "Sec-WebSocket-Extensions: " + deflateParams + "\r\n"
		}
		nc.OnWrite = func(all []byte) []xport.Chunk {
			if i := bytes.Index(all, []byte("\r\n\r\n")); i >= 0 && head == 0 {
				head = i + 4
				reply := good101(all[:head], extra)
				if len(chunks) == 0 {
					return []xport.Chunk{{Data: reply}}
				}
				glued := append([]xport.Chunk{{Data: append(reply, chunks[0].Data...)}}, chunks[1:]...)
				return glued
			}
			return nil
		}
		d := &ws.Dialer{EnableCompression: ex.Comp, ReadBufferSize: ex.RB, WriteBufferSize: 256, HandshakeTimeout: 30 * time.Second}
		d.NetDial = func(network, addr string) (net.Conn, error) { return nc, nil }
		var err error
		c, _, err = d.Dial("ws://c08.example/x", nil)
		if err != nil {
			d := map[string]interface{}{"exec": ex, "stream": st.Summary()}
			out.Violate("C08:dial-failed", "Dial over a scripted transport with a valid 101 reply failed: "+err.Error(), d)
			return false
		}
		nc.OnWrite = nil
		out.Count("connections_built_by_dial_with_frames_behind_the_reply", 1)
	} else {
		nc = xport.New(chunks)
		c = ws.VerifNewConn(nc, ex.Server, ex.RB, 256, nil, nil, ex.Comp)
	}
	if ctx.Idx%5 == 2 {
		// a read limit that every message of the stream meets exactly or with room to spare:
		// control frames are not counted against it
		var limit int64 = 1
		for _, d := range st.DataEvents() {
			var sum int64
			for fi := d.First; fi <= d.Last; fi++ {
				if !st.Frames[fi].IsControl() {
					sum += int64(len(st.Frames[fi].Payload))
				}
			}
			if sum > limit {
				limit = sum
			}
		}
		c.SetReadLimit(limit)
		out.Count("streams_read_under_an_exactly_sufficient_read_limit", 1)
	}
	switch hist {
	case 1:
		if err := c.WriteControl(ws.CloseMessage, ws.FormatCloseMessage(1001, "leaving"), time.Time{}); err != nil {
			out.Inconcl("could not send the local close: " + err.Error())
			return true
		}
	case 2:
		nc.WriteErr = io.ErrClosedPipe
	case 3:
		// the application's per-write deadline of an earlier write has passed; the
		// default handlers' replies must not inherit it (all echoes still demanded)
		c.SetWriteDeadline(time.Now().Add(-time.Second))
	}
	var log []c08Ev
	seq := 0
	nctlSeen := 0
	add := func(e c08Ev) {
		seq++
		e.Seq = seq
		log = append(log, e)
	}
	dp, dc := c.PingHandler(), c.CloseHandler()
	wrap := func() error {
		nctlSeen++
		if failAt >= 0 && nctlSeen-1 == failAt {
			return errHandler
		}
		return nil
	}
	c.SetPingHandler(func(s string) error {
		add(c08Ev{Kind: "ping", Payload: s})
		if err := wrap(); err != nil {
			return err
		}
		return dp(s)
	})
	c.SetPongHandler(func(s string) error {
		add(c08Ev{Kind: "pong", Payload: s})
		return wrap()
	})
	c.SetCloseHandler(func(code int, s string) error {
		add(c08Ev{Kind: "close", Payload: s, Code: code})
		if err := wrap(); err != nil {
			return err
		}
		return dc(code, s)
	})

	exp := st.DataEvents()
	aband := map[int]bool{}
	for _, i := range ex.Aband {
		aband[i] = true
	}
	var termErr error
	delivered := make([][]byte, len(exp)+1)
	mi := 0
	if ex.Mode == 3 {
		// the whole stream through JoinMessages (empty terminator): the bytes are attributed to
		// the messages by their known lengths; the terminal error is the join reader's
		jr := ws.JoinMessages(c, "")
		buf := make([]byte, r.Range(1, 200))
		off := 0
		for spins := 0; termErr == nil; spins++ {
			n, e := jr.Read(buf)
			for p := 0; p < n; {
				for mi < len(exp) && off == len(exp[mi].Data) {
					mi, off = mi+1, 0
				}
				if mi >= len(exp) {
					return fail("extra-message", fmt.Sprintf("JoinMessages delivered %d bytes beyond the messages the stream encodes", n-p), log)
				}
				k := len(exp[mi].Data) - off
				if k > n-p {
					k = n - p
				}
				add(c08Ev{Kind: "data", Msg: mi, Off: off, N: k})
				delivered[mi] = append(delivered[mi], buf[p:p+k]...)
				p, off = p+k, off+k
			}
			if e != nil {
				termErr = e
			}
			if spins > 1<<20 {
				return fail("no-terminal-error", "the JoinMessages reader never failed", log)
			}
		}
		for mi < len(exp) && off == len(exp[mi].Data) {
			mi, off = mi+1, 0
		}
		out.Count("streams_read_through_joinmessages", 1)
	}
	for ; ex.Mode != 3 && mi <= len(exp); mi++ {
		t, nr, err := c.NextReader()
		if err != nil {
			termErr = err
			break
		}
		if mi >= len(exp) {
			return fail("extra-message", fmt.Sprintf("a message (type %d) surfaced beyond the %d the stream encodes", t, len(exp)), log)
		}
		limit := -1
		if aband[mi] {
			limit = r.Range(0, len(exp[mi].Data))
			out.Count("abandoned_messages", 1)
		}
		buf := make([]byte, r.Range(1, 200))
		for limit != 0 {
			b := buf
			if limit > 0 && limit < len(b) {
				b = b[:limit]
			}
			n, e := nr.Read(b)
			if n > 0 {
				add(c08Ev{Kind: "data", Msg: mi, Off: len(delivered[mi]), N: n})
				delivered[mi] = append(delivered[mi], b[:n]...)
				if limit > 0 {
					limit -= n
				}
			}
			if e == io.EOF {
				break
			}
			if e != nil {
				termErr = e
				break
			}
		}
		if termErr != nil {
			break
		}
	}
	// ---- expected control sequence (all control frames up to and including the
	// first close, or up to the failing handler)
	var ctl []Ev
	for _, e := range st.Events {
		if e.Kind >= 8 {
			ctl = append(ctl, e)
		}
	}
	expCtl := ctl
	if failAt >= 0 && failAt < len(ctl) {
		expCtl = ctl[:failAt+1]
	}
	var gotCtl []c08Ev
	for _, e := range log {
		if e.Kind != "data" {
			gotCtl = append(gotCtl, e)
		}
	}
	kindName := map[int]string{8: "close", 9: "ping", 10: "pong"}
	if len(gotCtl) != len(expCtl) {
		return fail("handler-call-count", fmt.Sprintf("handlers were invoked %d times, the stream carries %d control frames up to the end/failing handler; terminal error %v", len(gotCtl), len(expCtl), termErr), log)
	}
	for i, g := range gotCtl {
		e := expCtl[i]
		want := string(e.Data)
		if e.Kind == 8 {
			want = e.Reason
		}
		if g.Kind != kindName[e.Kind] || g.Payload != want || (e.Kind == 8 && g.Code != e.Code) {
			return fail("handler-payload", fmt.Sprintf("control frame %d: handler %s got %q (code %d), wire has %s %q (code %d)", i, g.Kind, g.Payload, g.Code, kindName[e.Kind], want, e.Code), log)
		}
		out.Count("handler_calls_checked", 1)
	}
	// ---- ordering relative to delivered data
	// position of each delivered byte range on the wire = frame index
	for ci, g := range gotCtl {
		cf := expCtl[ci].First
		for _, d := range log {
			if d.Kind != "data" {
				continue
			}
			m := exp[d.Msg]
			if m.Comp {
				// message granularity
				if m.Last < cf && d.Seq > g.Seq {
					return fail("handler-order", fmt.Sprintf("control frame %d (frame %d) was handled before data of message %d that precedes it entirely", ci, cf, d.Msg), log)
				}
				if m.First > cf && d.Seq < g.Seq {
					return fail("handler-order", fmt.Sprintf("control frame %d (frame %d) was handled after data of message %d that follows it", ci, cf, d.Msg), log)
				}
				continue
			}
			// byte range -> frames
			off := 0
			for fi := m.First; fi <= m.Last; fi++ {
				f := st.Frames[fi]
				if f.IsControl() {
					continue
				}
				lo, hi := off, off+len(f.Payload)
				off = hi
				if d.Off < hi && d.Off+d.N > lo { // overlaps frame fi
					if fi < cf && d.Seq > g.Seq {
						return fail("handler-order", fmt.Sprintf("control frame %d (frame %d) was handled before bytes [%d,%d) of message %d from frame %d were delivered", ci, cf, d.Off, d.Off+d.N, d.Msg, fi), log)
					}
					if fi > cf && d.Seq < g.Seq {
						return fail("handler-order", fmt.Sprintf("control frame %d (frame %d) was handled after bytes [%d,%d) of message %d from the later frame %d were delivered", ci, cf, d.Off, d.Off+d.N, d.Msg, fi), log)
					}
				}
			}
		}
	}
	// ---- delivered data is right (prefix for abandoned)
	for i := range exp {
		if i > mi {
			break
		}
		if !bytes.HasPrefix(exp[i].Data, delivered[i]) {
			return fail("data-disturbed", fmt.Sprintf("message %d: delivered bytes are not a prefix of the payload", i), log)
		}
		complete := i < mi
		if complete && !aband[i] && !bytes.Equal(exp[i].Data, delivered[i]) {
			return fail("data-disturbed", fmt.Sprintf("message %d: delivered %d of %d bytes", i, len(delivered[i]), len(exp[i].Data)), log)
		}
	}
	// ---- terminal error
	if termErr == nil {
		return fail("no-terminal-error", "reader never failed", log)
	}
	sticky := func(want error) bool {
		for i := 0; i < 3; i++ {
			if _, _, e := c.NextReader(); e != want {
				return fail("error-not-permanent", fmt.Sprintf("later NextReader returned %v, first failure was %v", e, want), log)
			}
		}
		return true
	}
	written, rest, werr := wire.Decode(nc.Written()[head:])
	if werr != nil || len(rest) > 0 {
		return fail("write-log", "bytes written back do not decode", log)
	}
	if failAt >= 0 && failAt < len(ctl) {
		if termErr != errHandler {
			return fail("handler-error-not-returned", fmt.Sprintf("handler returned an error at control frame %d but the read call returned %v", failAt, termErr), log)
		}
		out.Count("handler_errors_checked", 1)
		return sticky(errHandler)
	}
	if hist == 1 || hist == 2 {
		// echoes are best effort and cannot succeed here; everything the reader owes
		// the application is unchanged, and nothing may follow the local close
		out.Count("streams_read_after_local_close_or_with_broken_writes", 1)
		if hist == 1 && !(len(written) == 1 && written[0].Op == 8) {
			return fail("frames-after-local-close", fmt.Sprintf("%d frames on the wire; the application's close must be the last thing written", len(written)), log)
		}
		if hist == 2 && len(written) != 0 {
			return fail("write-log", "bytes were accepted by a transport whose writes all fail", log)
		}
		if hasClose {
			ce := st.Events[len(st.Events)-1]
			if !isCloseErr(termErr, ce.Code, ce.Reason) {
				return fail("close-error-lost-when-echo-impossible", fmt.Sprintf("reads failed with %v, the peer's close %d %q was received in full", termErr, ce.Code, ce.Reason), log)
			}
			return sticky(termErr)
		}
		return true
	}
	// default handlers: one pong per ping, identical payload, in order; then the close echo
	var wantW []wire.Frame
	for _, e := range expCtl {
		switch e.Kind {
		case 9:
			wantW = append(wantW, wire.Frame{Op: 10, Payload: e.Data})
		case 8:
			var body []byte
			if e.Code != 1005 {
				body = wire.MkClose(e.Code, "")
			}
			wantW = append(wantW, wire.Frame{Op: 8, Payload: body})
		}
	}
	if len(written) != len(wantW) {
		return fail("echo-count", fmt.Sprintf("%d frames written back, expected %d (one pong per ping, one close per close)", len(written), len(wantW)), log)
	}
	for i, w := range written {
		e := wantW[i]
		if w.Op != e.Op || !w.Fin || w.Masked == ex.Server {
			return fail("echo-frame", fmt.Sprintf("frame %d written back is %s, expected opcode %d", i, w.String(), e.Op), log)
		}
		if e.Op == 10 {
			if !bytes.Equal(w.Payload, e.Payload) {
				return fail("pong-payload", fmt.Sprintf("pong %d carries %d bytes, the ping carried %d (first difference %d)", i, len(w.Payload), len(e.Payload), diffAt(w.Payload, e.Payload)), log)
			}
			out.Count("pongs_checked", 1)
		} else {
			wc, _, ok := wire.CloseBody(w.Payload)
			ec, _, _ := wire.CloseBody(e.Payload)
			if !ok || wc != ec {
				return fail("close-echo-status", fmt.Sprintf("close answered with status %d, received %d", wc, ec), log)
			}
			out.Count("close_echoes_checked", 1)
		}
	}
	if hasClose {
		ce := st.Events[len(st.Events)-1]
		if !isCloseErr(termErr, ce.Code, ce.Reason) {
			return fail("close-error", fmt.Sprintf("reads failed with %v, received close %d %q", termErr, ce.Code, ce.Reason), log)
		}
		return sticky(termErr)
	}
	return true
}

// c08Concurrent: the default ping handler answers while other goroutines use
// WriteControl and a writer sends data through a transport that dawdles inside
// Write. Every pong on the wire must carry the payload of exactly one received
// ping; every application control frame appears exactly once.
func c08Concurrent(ctx *core.Ctx, out *core.Out) {
	r := ctx.R
	cfg := genCfg(r)
	if cfg.WB < 64 {
		cfg.WB = 64
	}
	a, b := xport.NewPipe()
	a.DawdleFn = func() { time.Sleep(time.Duration(50+r.Intn(300)) * time.Microsecond) }
	dm := sync.Mutex{}
	a.DawdleFn = func() {
		dm.Lock()
		d := time.Duration(50+r.Intn(300)) * time.Microsecond
		dm.Unlock()
		time.Sleep(d)
	}
	c := newConn(a, cfg, &TrackPool{}, 0)
	var wg sync.WaitGroup
	drainRaw(b, &wg)
	nping := 4 + ctx.Idx%12
	t0 := time.Now()
	// the peer's pings
	pings := map[string]bool{}
	var stream []byte
	for i := 0; i < nping; i++ {
		p := fmt.Sprintf("peer-ping-%04d-%x", i, ctx.Idx)
		pings[p] = true
		f := wire.Frame{Fin: true, Op: 9, Masked: cfg.Server, Key: [4]byte{1, 2, 3, byte(i)}, Payload: []byte(p)}
		stream = wire.Append(stream, f)
	}
	// time every default ping handler invocation: a pong may only be missing
	// when the handler really waited out its one-second lock wait
	var hmu sync.Mutex
	handled := map[string]time.Duration{}
	dp := c.PingHandler()
	c.SetPingHandler(func(p string) error {
		t := time.Now()
		err := dp(p)
		hmu.Lock()
		handled[p] = time.Since(t)
		hmu.Unlock()
		return err
	})
	rdDone := make(chan struct{})
	var rdErr error
	go func() {
		defer close(rdDone)
		for {
			if _, _, err := c.ReadMessage(); err != nil {
				rdErr = err
				return
			}
		}
	}()
	var wg2 sync.WaitGroup
	appOK := map[string]bool{}
	var amu sync.Mutex
	for g := 0; g < 3; g++ {
		wg2.Add(1)
		go func(g int) {
			defer wg2.Done()
			for i := 0; i < 6; i++ {
				p := fmt.Sprintf("app-%d-%d-%x", g, i, ctx.Idx)
				if err := c.WriteControl(9+g%2, []byte(p), time.Now().Add(10*time.Second)); err == nil {
					amu.Lock()
					appOK[p] = true
					amu.Unlock()
				}
			}
		}(g)
	}
	wg2.Add(1)
	go func() {
		defer wg2.Done()
		for i := 0; i < 4; i++ {
			c.WriteMessage(2, bytes.Repeat([]byte{byte(i)}, 3*cfg.WB))
		}
	}()
	// feed the pings in two bursts
	b.Write(stream[:len(stream)/2])
	time.Sleep(200 * time.Microsecond)
	b.Write(stream[len(stream)/2:])
	wg2.Wait()
	// wait (bounded) until every ping has been through its handler
	allHandled := false
	limit := time.Now().Add(20 * time.Second)
	for i := 0; time.Now().Before(limit) && i >= 0; i++ {
		hmu.Lock()
		n := len(handled)
		hmu.Unlock()
		if n >= nping {
			allHandled = true
			break
		}
		select {
		case <-rdDone:
			i = -2 // the reader is gone: no more handler calls will come
		default:
		}
		time.Sleep(time.Millisecond)
	}
	readerDiedEarly := false
	select {
	case <-rdDone:
		readerDiedEarly = !allHandled
	default:
	}
	elapsed := time.Since(t0)
	a.Close()
	b.Close()
	<-rdDone
	wg.Wait()
	out.Count("concurrent_pong_runs", 1)
	out.Eval(fmt.Sprintf("conc|%d|%s", nping, cfg), true)
	desc := map[string]interface{}{"family": "concurrent", "cfg": cfg, "pings": nping}
	frames, _, derr := wire.Decode(a.Written())
	if derr != nil {
		out.Violate("C08:concurrent-wire-undecodable", derr.Error(), desc)
		return
	}
	seen := map[string]int{}
	for _, f := range frames {
		if f.Op < 9 {
			continue
		}
		p := string(f.Payload)
		seen[p]++
		switch {
		case f.Op == 10 && pings[p]:
			out.Count("pongs_checked", 1)
		case appOK[p]:
		case bytes.HasPrefix(f.Payload, []byte("app-")):
			// a WriteControl that returned an error but whose frame is on the wire would be C11's business
		default:
			out.Violate("C08:pong-payload-corrupted-under-concurrency", fmt.Sprintf("control frame op=%d with payload %q answers no received ping and was sent by no caller", f.Op, p), desc)
			return
		}
		if seen[p] > 1 {
			out.Violate("C08:control-frame-duplicated-under-concurrency", fmt.Sprintf("control frame with payload %q is on the wire %d times: another caller's frame was overwritten by it", p, seen[p]), desc)
			return
		}
	}
	if readerDiedEarly {
		out.Violate("C08:reader-fails-on-conformant-pings-under-concurrency", fmt.Sprintf("the reader stopped with %v after %d of %d conformant pings although the transport was still open", rdErr, len(handled), nping), desc)
		return
	}
	if !allHandled {
		out.Inconcl(fmt.Sprintf("only %d of %d pings reached the handler within 20 s (%v elapsed)", len(handled), nping, elapsed))
		return
	}
	for p := range pings {
		if seen[p] == 0 {
			if d := handled[p]; d < 900*time.Millisecond {
				out.Violate("C08:ping-unanswered-under-concurrency", fmt.Sprintf("ping %q was never answered although its handler returned after %v (its one-second wait for the connection cannot have expired)", p, d), desc)
				return
			}
			out.Inconcl("a pong is missing after the handler waited out its one-second limit (best effort)")
		}
	}
}
