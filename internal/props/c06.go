package props

import (
	"bytes"
	"errors"
	"fmt"
	"io"
	"runtime"
	"sync/atomic"
	"time"

	ws "github.com/gorilla/websocket"

	"verif/internal/core"
	"verif/internal/gen"
	"verif/internal/wire"
	"verif/internal/xport"
	"verif/internal/zflate"
)

func init() {
	core.Register(&core.Prop{
		ID:    "C06",
		Level: "exploration",
		Rule: "case = (limit L, history of 0-3 within-limit messages each read fully/partly/not at all and fragmented at random, target message of size L-1/L/L+1/random/huge claimed length with a fragmentation whose running sum crosses L at a drawn frame, interleaved controls, role, buffer size, chunking); " +
			"plus an allocation probe per case (claimed lengths 2^20..2^63-1, transport ends after a few bytes); distinct = hash of the case descriptor; non-trivial = history non-empty or target fragmented or target size within 1 of L",
		Variants: core.PlainOnly,
		Cases: func(tier, variant string) int {
			if tier == "thorough" {
				return 500000
			}
			return 20000
		},
		Run:          runC06,
		BeatTimeoutS: 60,
		Required:     []string{"within_limit_read_in_full", "over_limit_refused", "close_1009_seen", "alloc_probes", "compressed_targets", "limit_changed_mid_connection", "reads_retried_after_limit_error", "crossing_frames_whose_payload_never_arrives", "breaches_while_another_goroutine_writes"},
		Assumptions: []string{
			"the limit is counted in payload bytes on the wire (compressed size for compressed messages); the <=L delivered-bytes bound is judged for uncompressed messages only",
			"allocation is measured with runtime.MemStats.TotalAlloc in a worker that runs one case at a time",
		},
	})
}

type c06Hist struct {
	Size  int   `json:"size"`
	Frags []int `json:"frags"`
	Treat int   `json:"treat"` // 0 full, 1 partial, 2 none
	Read  int   `json:"read,omitempty"`
}

type c06Case struct {
	L       int64     `json:"limit"`
	Server  bool      `json:"reader_is_server"`
	RB      int       `json:"rb"`
	Chunk   int       `json:"chunk"`
	Hist    []c06Hist `json:"history"`
	Target  int64     `json:"target_size"`
	Frags   []int     `json:"target_frags,omitempty"`
	Claim   uint64    `json:"claimed_length,omitempty"`
	ClaimAt int       `json:"claim_at_frame,omitempty"`
	Ctl     bool      `json:"controls"`
	Mode    int       `json:"mode"`
	// LocalClose: the application sent its own close before reading; WriteBroken: every transport write fails
	LocalClose    bool `json:"application_sent_close_first,omitempty"`
	WriteBroken   bool `json:"write_side_broken,omitempty"`
	StaleDeadline bool `json:"stale_expired_write_deadline,omitempty"`
	// LimitHist: 0 the limit is set once before reading; 1 earlier messages were read without a limit
	// and SetReadLimit(L) is called right before the target; 2 same with a larger earlier limit;
	// 3 SetReadLimit(L) is repeated before every message; 4 SetReadLimit(L) is repeated between the
	// Read calls of every message (the same value: the limit in force never changes)
	LimitHist int `json:"limit_history,omitempty"`
	// CloseHandler: 0 default; 1 the application installed a bookkeeping-only close handler; 2 one that
	// answers with its own close 1000. The peer sends no close in these streams: the handler must
	// never run, and the 1009 close of a breach is the library's own business
	CloseHandler int `json:"custom_close_handler,omitempty"`
	// Withheld: the stream ends right after the header of the frame that crosses the limit
	Withheld bool `json:"payload_of_crossing_frame_withheld,omitempty"`
}

// c06WhileWriting: the breach is found while another goroutine is sending messages through a
// transport that takes a few hundred microseconds per write. The best-effort 1009 waits up to a
// second for the connection; writes this short never keep it that long, so the close is owed.
func c06WhileWriting(ctx *core.Ctx, out *core.Out) {
	r := ctx.R
	server := r.Bool()
	L := int64(r.Range(10, 2000))
	mk := func(op int, fin bool, p []byte) wire.Frame {
		f := wire.Frame{Op: op, Fin: fin, Masked: server, Payload: p}
		if server {
			f.Key = maskKey(r)
		}
		return f
	}
	ok := r.Payload(gen.PCounter, int(L))
	var frames []wire.Frame
	frames = append(frames, mk(2, true, ok))
	big := r.Payload(gen.PText, int(L)+r.Range(1, 50))
	h := len(big) / 2
	frames = append(frames, mk(1, false, big[:h]), mk(0, true, big[h:]))
	nc := xport.New(xport.Rechunk(wire.Encode(frames), r.Intn(xport.NChunkStyles), r))
	nc.Block = true
	nc.DawdleFn = func() { time.Sleep(300 * time.Microsecond) }
	c := ws.VerifNewConn(nc, server, r.BufSize(), 512, nil, nil, false)
	c.SetReadLimit(L)
	stop := make(chan struct{})
	done := make(chan struct{})
	go func() {
		defer close(done)
		p := bytes.Repeat([]byte("w"), 200)
		for {
			select {
			case <-stop:
				return
			default:
			}
			if c.WriteMessage(2, p) != nil {
				return
			}
		}
	}()
	desc := map[string]interface{}{"family": "breach while another goroutine writes", "server": server, "limit": L}
	out.Eval(fmt.Sprintf("c06w|%v|%d|%d", server, L, len(big)), true)
	_, got, err := c.ReadMessage()
	if err != nil || !bytes.Equal(got, ok) {
		close(stop)
		<-done
		nc.Close()
		out.Violate("C06:within-limit-message-refused", fmt.Sprintf("a message of exactly L=%d bytes failed while another goroutine was writing: %v", L, err), desc)
		return
	}
	_, _, err = c.ReadMessage()
	// give the writer a moment to run into the close (it stops by itself once the close is sent)
	select {
	case <-done:
	case <-time.After(3 * time.Second):
	}
	close(stop)
	<-done
	nc.Close()
	out.Count("breaches_while_another_goroutine_writes", 1)
	if !errors.Is(err, ws.ErrReadLimit) {
		out.Violate("C06:over-limit-wrong-error", fmt.Sprintf("over-limit message failed with %v, expected ErrReadLimit", err), desc)
		return
	}
	wf, _, _ := wire.Decode(nc.Written())
	n1009 := 0
	for _, f := range wf {
		if f.Op == 8 {
			if code, _, _ := wire.CloseBody(f.Payload); code == 1009 {
				n1009++
			}
		}
	}
	if n1009 != 1 {
		out.Violate("C06:close-1009-missing-while-writing", fmt.Sprintf("%d close frames with status 1009 on the wire (%d frames in all); the writer's transport writes take 300 us each, far less than the second the reply may wait", n1009, len(wf)), desc)
	}
}

func runC06(ctx *core.Ctx, out *core.Out) {
	if ctx.Idx%25 == 11 {
		c06WhileWriting(ctx, out)
		return
	}
	r := ctx.R
	if ctx.Idx%7 == 3 {
		c06Compressed(ctx, out)
		return
	}
	if ctx.Idx%50 == 0 {
		allocProbe(ctx, out, gen.For(ctx.Seed, "C06/alloc", ctx.Idx))
	}
	cs := c06Case{Server: r.Bool(), RB: r.BufSize(), Chunk: r.Intn(xport.NChunkStyles), Ctl: r.Chance(1, 3), Mode: r.Intn(2)}
	switch r.Intn(8) {
	case 0:
		cs.LocalClose = true
	case 1:
		cs.WriteBroken = true
	case 2, 3:
		cs.StaleDeadline = true
	}
	if r.Chance(1, 3) {
		cs.LimitHist = 1 + r.Intn(4)
	}
	if r.Chance(1, 4) {
		cs.CloseHandler = 1 + r.Intn(2)
	}
	cs.L = int64([]int{1, 2, 10, 124, 125, 126, 127, 1000, 65535, 65536}[r.Intn(10)])
	if r.Chance(1, 4) {
		cs.L = int64(r.Range(1, 3000))
	}
	masked := cs.Server
	var frames []wire.Frame
	mkf := func(op int, fin bool, p []byte) wire.Frame {
		f := wire.Frame{Op: op, Fin: fin, Masked: masked, Payload: p}
		if masked {
			f.Key = maskKey(r)
		}
		return f
	}
	addMsg := func(data []byte, sizes []int) {
		off := 0
		for i, k := range sizes {
			op := 0
			if i == 0 {
				op = 2
			}
			frames = append(frames, mkf(op, i == len(sizes)-1, data[off:off+k]))
			off += k
			if cs.Ctl && i < len(sizes)-1 && r.Chance(1, 3) {
				frames = append(frames, mkf(9, true, r.Payload(gen.PRandom, r.Range(0, 125))))
			}
		}
	}
	splits := func(n int) []int {
		s := r.Splits(n)
		if len(s) == 0 {
			s = []int{n}
		}
		return s
	}
	// history
	nh := r.Intn(4)
	var histData [][]byte
	for i := 0; i < nh; i++ {
		n := r.Range(0, int(cs.L))
		if r.Chance(1, 3) {
			n = int(cs.L)
		}
		h := c06Hist{Size: n, Frags: splits(n), Treat: r.Intn(3)}
		if h.Treat == 1 {
			h.Read = r.Range(0, n)
		}
		d := r.Payload(gen.PCounter, n)
		histData = append(histData, d)
		addMsg(d, h.Frags)
		cs.Hist = append(cs.Hist, h)
	}
	// target
	targetFirst, targetEnd := -1, -1
	var tdata []byte
	huge := r.Chance(1, 6)
	over := false
	if huge {
		// a fragment claims an enormous length; what precedes it stays within L
		pre := r.Range(0, int(cs.L))
		if r.Bool() {
			pre = 0
		}
		cs.Frags = nil
		if pre > 0 {
			cs.Frags = splits(pre)
		}
		tdata = r.Payload(gen.PCounter, pre)
		cs.Claim = []uint64{1 << 31, 1 << 40, 1 << 62, 1<<63 - 1, 1<<63 - uint64(pre), 1<<63 - uint64(pre) - 1, 1 << 63, 1<<63 + 5, 1<<64 - 1}[r.Intn(9)]
		cs.ClaimAt = len(cs.Frags)
		cs.Target = -1
		over = true
		off := 0
		for i, k := range cs.Frags {
			op := 0
			if i == 0 {
				op = 2
			}
			frames = append(frames, mkf(op, false, tdata[off:off+k]))
			off += k
		}
		op := 0
		if len(cs.Frags) == 0 {
			op = 2
		}
		hf := mkf(op, true, []byte("0123456789"))
		hf.HasClaim, hf.ClaimLen, hf.LenForm = true, cs.Claim, 64
		frames = append(frames, hf)
	} else {
		switch r.Intn(5) {
		case 0:
			cs.Target = cs.L - 1
		case 1:
			cs.Target = cs.L
		case 2:
			cs.Target = cs.L + 1
		case 3:
			cs.Target = int64(r.Range(0, int(cs.L)))
		default:
			cs.Target = cs.L + int64(r.Range(1, int(cs.L)+10))
		}
		tdata = r.Payload(gen.PText, int(cs.Target))
		cs.Frags = splits(int(cs.Target))
		over = cs.Target > cs.L
		targetFirst = len(frames)
		addMsg(tdata, cs.Frags)
		targetEnd = len(frames)
	}
	// a follower message (within limit) and a marker
	follow := r.Payload(gen.PFF, r.Range(0, int(cs.L)))
	addMsg(follow, splits(len(follow)))

	nontriv := nh > 0 || len(cs.Frags) > 1 || (cs.Target >= cs.L-1 && cs.Target <= cs.L+1)
	out.Eval(core.J(cs), nontriv)
	fail := func(sig, what string) {
		out.Violate("C06:"+sig, what, map[string]interface{}{"case": cs, "frames": framesDesc(frames, 24)})
	}

	stream := wire.Encode(frames)
	if over && targetFirst >= 0 && r.Chance(1, 4) {
		// the peer sends the header of the frame that crosses the limit and then nothing more
		// (the transport ends there): the refusal must not wait for the payload
		var sum int64
		for i := targetFirst; i < targetEnd; i++ {
			if frames[i].Op >= 8 {
				continue
			}
			if sum+int64(len(frames[i].Payload)) > cs.L {
				one := wire.Encode(frames[i : i+1])
				stream = stream[:len(wire.Encode(frames[:i]))+len(one)-len(frames[i].Payload)]
				cs.Withheld = true
				out.Count("crossing_frames_whose_payload_never_arrives", 1)
				break
			}
			sum += int64(len(frames[i].Payload))
		}
	}
	nc := xport.New(xport.Rechunk(stream, cs.Chunk, r))
	c := ws.VerifNewConn(nc, cs.Server, cs.RB, 256, nil, nil, false)
	switch cs.LimitHist {
	case 1:
		c.SetReadLimit(0)
	case 2:
		c.SetReadLimit(2*cs.L + 7)
	default:
		c.SetReadLimit(cs.L)
	}
	if cs.LimitHist != 0 {
		out.Count("limit_changed_mid_connection", 1)
	}
	closeHandlerCalls := 0
	switch cs.CloseHandler {
	case 1:
		c.SetCloseHandler(func(code int, text string) error { closeHandlerCalls++; return nil })
	case 2:
		c.SetCloseHandler(func(code int, text string) error {
			closeHandlerCalls++
			c.WriteControl(ws.CloseMessage, ws.FormatCloseMessage(1000, "bye"), time.Now().Add(time.Second))
			return nil
		})
	}
	defer func() {
		if closeHandlerCalls != 0 {
			out.Violate("C06:close-handler-called-without-a-close-from-the-peer", fmt.Sprintf("the application's close handler ran %d times although the peer never sent a close frame", closeHandlerCalls), map[string]interface{}{"case": cs})
		}
	}()
	// the application may already have sent its close frame (and keeps reading), or the
	// write side of the transport may be broken: neither changes what the reader must do
	switch {
	case cs.LocalClose:
		if err := c.WriteControl(ws.CloseMessage, ws.FormatCloseMessage(1000, ""), time.Time{}); err != nil {
			out.Inconcl("could not send the local close: " + err.Error())
			return
		}
	case cs.WriteBroken:
		nc.WriteErr = io.ErrClosedPipe
	case cs.StaleDeadline:
		// the application's per-write deadline of an earlier write has passed
		c.SetWriteDeadline(time.Now().Add(-time.Second))
	}

	// play the history
	fragmentedAbandoned := false
	for i, h := range cs.Hist {
		if cs.LimitHist == 3 {
			c.SetReadLimit(cs.L)
		}
		t, rd, err := c.NextReader()
		if err != nil {
			sig := "within-limit-message-refused"
			if errors.Is(err, ws.ErrReadLimit) && fragmentedAbandoned {
				sig = "within-limit-message-refused-after-abandoned-fragmented-message"
			}
			fail(sig, fmt.Sprintf("history message %d (size %d <= L=%d) could not be opened: %v", i, h.Size, cs.L, err))
			return
		}
		_ = t
		switch h.Treat {
		case 0:
			b, err := io.ReadAll(rd)
			if err != nil || !bytes.Equal(b, histData[i]) {
				sig := "within-limit-message-refused"
				if errors.Is(err, ws.ErrReadLimit) && fragmentedAbandoned {
					sig = "within-limit-message-refused-after-abandoned-fragmented-message"
				}
				fail(sig, fmt.Sprintf("history message %d (size %d <= L=%d): read %d bytes, err %v", i, h.Size, cs.L, len(b), err))
				return
			}
			out.Count("within_limit_read_in_full", 1)
		case 1:
			b := make([]byte, h.Read)
			n, err := io.ReadFull(rd, b)
			if (err != nil && h.Read > 0) || !bytes.Equal(b[:n], histData[i][:n]) {
				sig := "within-limit-message-refused"
				if errors.Is(err, ws.ErrReadLimit) && fragmentedAbandoned {
					sig = "within-limit-message-refused-after-abandoned-fragmented-message"
				}
				fail(sig, fmt.Sprintf("history message %d: partial read of %d bytes failed: %v", i, h.Read, err))
				return
			}
			if len(h.Frags) > 1 {
				fragmentedAbandoned = true
			}
		case 2:
			if len(h.Frags) > 1 {
				fragmentedAbandoned = true
			}
		}
	}
	// the target
	var limFrameBytes int // payload bytes of the target that precede the crossing frame
	{
		sum := int64(0)
		for _, k := range cs.Frags {
			if sum+int64(k) > cs.L {
				break
			}
			sum += int64(k)
			limFrameBytes += k
		}
	}
	var got []byte
	var terr error
	if cs.LimitHist != 0 {
		c.SetReadLimit(cs.L)
	}
	var late int32
	if cs.Withheld {
		// the peer stays connected and silent behind the crossing header: the refusal must come
		// without the payload (a watchdog closes the transport if it does not)
		nc.Block = true
		timer := time.AfterFunc(20*time.Second, func() {
			atomic.StoreInt32(&late, 1)
			nc.Close()
		})
		defer timer.Stop()
	}
	_, rd, err := c.NextReader()
	if err != nil {
		terr = err
	} else {
		buf := make([]byte, r.Range(1, 4000))
		for {
			if cs.LimitHist == 4 {
				c.SetReadLimit(cs.L)
			}
			n, e := rd.Read(buf)
			got = append(got, buf[:n]...)
			if e != nil {
				if e != io.EOF {
					terr = e
				}
				break
			}
		}
		if terr != nil {
			// an application that tries the refused reader again gets nothing more
			for i := 0; i < 3; i++ {
				n, e := rd.Read(buf)
				if n > 0 || e == nil || e == io.EOF {
					got = append(got, buf[:n]...)
					out.Violate("C06:read-after-limit-error-delivers", fmt.Sprintf("Read on the message reader after it failed with %v returned (%d, %v)", terr, n, e), map[string]interface{}{"case": cs, "frames": framesDesc(frames, 24)})
					return
				}
			}
			out.Count("reads_retried_after_limit_error", 1)
		}
	}
	if atomic.LoadInt32(&late) != 0 {
		out.Violate("C06:refusal-waits-for-the-payload", "the header of the crossing frame arrived, the peer sent nothing more and stayed connected: 20 s later the read had not been refused", map[string]interface{}{"case": cs, "frames": framesDesc(frames, 24)})
		return
	}
	if !over {
		if terr != nil || !bytes.Equal(got, tdata) {
			sig := "within-limit-message-refused"
			if errors.Is(terr, ws.ErrReadLimit) && fragmentedAbandoned {
				sig = "within-limit-message-refused-after-abandoned-fragmented-message"
			}
			fail(sig, fmt.Sprintf("target message of %d bytes <= L=%d: read %d bytes, err %v", cs.Target, cs.L, len(got), terr))
			return
		}
		out.Count("within_limit_read_in_full", 1)
		// the follower must be readable too
		_, b, err := c.ReadMessage()
		if err != nil || !bytes.Equal(b, follow) {
			fail("within-limit-message-refused", fmt.Sprintf("follower message of %d bytes <= L=%d after an exactly-sized target: read %d bytes, err %v", len(follow), cs.L, len(b), err))
			return
		}
		out.Count("within_limit_read_in_full", 1)
		return
	}
	// over the limit
	if terr == nil {
		fail("over-limit-message-read-in-full", fmt.Sprintf("message of %d bytes (claimed %d) > L=%d was read to its end (%d bytes)", cs.Target, cs.Claim, cs.L, len(got)))
		return
	}
	if !errors.Is(terr, ws.ErrReadLimit) {
		fail("over-limit-wrong-error", fmt.Sprintf("over-limit message failed with %v, expected ErrReadLimit", terr))
		return
	}
	if int64(len(got)) > cs.L {
		fail("over-limit-bytes-delivered", fmt.Sprintf("%d bytes of an over-limit message were delivered, L=%d", len(got), cs.L))
		return
	}
	if len(got) > limFrameBytes || !bytes.HasPrefix(tdata, got) {
		fail("crossing-frame-payload-delivered", fmt.Sprintf("%d bytes delivered but only %d precede the frame whose header crosses the limit", len(got), limFrameBytes))
		return
	}
	out.Count("over_limit_refused", 1)
	for i := 0; i < 3; i++ {
		_, _, e2 := c.NextReader()
		if !errors.Is(e2, ws.ErrReadLimit) {
			fail("limit-error-not-sticky", fmt.Sprintf("NextReader after ErrReadLimit returned %v", e2))
			return
		}
	}
	if cs.WriteBroken {
		out.Count("breaches_with_broken_write_side", 1)
		return
	}
	// 1009 close: demanded for lengths < 2^63 whose running sum does not overflow
	wf, rest, werr := wire.Decode(nc.Written())
	if cs.LocalClose {
		out.Count("breaches_after_local_close", 1)
		if werr != nil || len(rest) > 0 || len(wf) != 1 || wf[0].Op != 8 {
			fail("frames-after-local-close", fmt.Sprintf("%d frames on the wire although the application's close must be the last thing written", len(wf)))
		}
		return
	}
	closes := 0
	for _, f := range wf {
		if f.Masked == cs.Server {
			fail("reply-frame-wrong-masking", fmt.Sprintf("the %s wrote a frame (%s) with MASK=%v: a conformant peer rejects it and never learns the status", map[bool]string{true: "server", false: "client"}[cs.Server], f.String(), f.Masked))
			return
		}
		if f.Op == 8 {
			closes++
			code, _, _ := wire.CloseBody(f.Payload)
			if code != 1009 {
				fail("close-status", fmt.Sprintf("close sent with status %d after a read-limit breach, expected 1009", code))
				return
			}
		}
	}
	if werr != nil || len(rest) > 0 || closes > 1 {
		fail("write-log", "bytes written back after the breach do not decode to at most one close frame")
		return
	}
	plain := cs.Claim == 0 || (cs.Claim < 1<<63 && uint64(len(tdata))+cs.Claim < 1<<63)
	if plain {
		if closes != 1 {
			sig := "close-1009-missing"
			if fragmentedAbandoned && cs.Claim != 0 {
				sig = "close-1009-missing-running-sum-overflow-after-abandoned-fragmented-message"
			}
			fail(sig, fmt.Sprintf("no close frame with status 1009 was sent after the breach (%d close frames)", closes))
			return
		}
		out.Count("close_1009_seen", 1)
	} else {
		out.Count("overflow_or_topbit_lengths", 1)
	}

	if ctx.Idx%1999 == 0 {
		out.Sample(map[string]interface{}{"case": cs, "frames": framesDesc(frames, 12)})
	}
}

// allocProbe reads a frame whose header claims claim bytes but whose transport
// ends after 10 payload bytes, and compares the heap allocation with the one
// for a small claim.
func allocProbe(ctx *core.Ctx, out *core.Out, r *gen.R) {
	server := r.Bool()
	measure := func(claim uint64, limit int64) uint64 {
		f := wire.Frame{Op: 2, Fin: true, Masked: server, Payload: []byte("0123456789"), HasClaim: true, ClaimLen: claim, LenForm: 64}
		b := wire.Append(nil, f)
		nc := xport.New([]xport.Chunk{{Data: b}})
		c := ws.VerifNewConn(nc, server, 4096, 256, nil, nil, false)
		if limit > 0 {
			c.SetReadLimit(limit)
		}
		var m0, m1 runtime.MemStats
		runtime.ReadMemStats(&m0)
		_, _, _ = c.ReadMessage()
		runtime.ReadMemStats(&m1)
		return m1.TotalAlloc - m0.TotalAlloc
	}
	base := measure(1<<16, 0)
	for _, claim := range []uint64{1 << 20, 1 << 32, 1 << 40, 1 << 62, 1<<63 - 1} {
		for _, limit := range []int64{0, 1 << 50} {
			a := measure(claim, limit)
			out.Count("alloc_probes", 1)
			if a > base+128<<10 {
				out.Violate("C06:allocation-depends-on-claimed-length", fmt.Sprintf("receiving a frame that claims %d bytes (10 arrive) allocated %d bytes; a 65536-byte claim allocated %d", claim, a, base), nil)
				return
			}
		}
	}
}

// c06Compressed: the limit counts payload bytes on the wire. A compressed
// message whose wire payload is <= L must be readable in full even when it
// inflates to far more than L; one whose wire payload exceeds L must be refused.
func c06Compressed(ctx *core.Ctx, out *core.Out) {
	r := ctx.R
	server := r.Bool()
	L := int64([]int{20, 64, 125, 126, 300, 1000}[r.Intn(6)])
	n := r.Range(0, int(L)*30)
	class := []int{gen.PZeros, gen.PText, gen.PRandom, gen.PJSONish}[r.Intn(4)]
	data := r.Payload(class, n)
	z, _ := zflate.Message(data, r, zflate.Options{MidFlush: r.Chance(1, 4)})
	if got, err := wire.Inflate(z); err != nil || !bytes.Equal(got, data) {
		out.Count("encoder_rejected", 1)
		return
	}
	sizes := r.Splits(len(z))
	if len(sizes) == 0 {
		sizes = []int{len(z)}
	}
	var frames []wire.Frame
	mk := func(op int, fin, rsv1 bool, p []byte) wire.Frame {
		f := wire.Frame{Op: op, Fin: fin, Rsv1: rsv1, Masked: server, Payload: p}
		if server {
			f.Key = maskKey(r)
		}
		return f
	}
	// an earlier, within-limit plain message, sometimes abandoned
	pre := r.Payload(gen.PCounter, r.Range(0, int(L)))
	frames = append(frames, mk(2, true, false, pre))
	off := 0
	for i, k := range sizes {
		op := 0
		if i == 0 {
			op = 1
		}
		frames = append(frames, mk(op, i == len(sizes)-1, i == 0, z[off:off+k]))
		off += k
	}
	follow := []byte("follower")
	if int64(len(follow)) > L {
		follow = follow[:L]
	}
	frames = append(frames, mk(2, true, false, follow))
	cs := map[string]interface{}{"limit": L, "plain_size": len(data), "wire_size": len(z), "frags": sizes, "reader_is_server": server, "payload_class": class}
	out.Eval(core.J(cs), true)
	out.Count("compressed_targets", 1)
	fail := func(sig, what string) {
		out.Violate("C06:"+sig, what, map[string]interface{}{"case": cs, "frames": framesDesc(frames, 20)})
	}
	nc := xport.New(xport.Rechunk(wire.Encode(frames), r.Intn(xport.NChunkStyles), r))
	c := ws.VerifNewConn(nc, server, r.BufSize(), 256, nil, nil, true)
	c.SetReadLimit(L)
	if r.Bool() {
		if _, p, err := c.ReadMessage(); err != nil || !bytes.Equal(p, pre) {
			fail("within-limit-message-refused", fmt.Sprintf("plain message of %d bytes <= L=%d: %v", len(pre), L, err))
			return
		}
	} else if _, _, err := c.NextReader(); err != nil {
		fail("within-limit-message-refused", fmt.Sprintf("plain message of %d bytes <= L=%d could not be opened: %v", len(pre), L, err))
		return
	}
	_, p, err := c.ReadMessage()
	if int64(len(z)) <= L {
		if err != nil || !bytes.Equal(p, data) {
			fail("within-limit-compressed-message-refused", fmt.Sprintf("compressed message with %d payload bytes on the wire (<= L=%d, %d bytes inflated): read %d bytes, err %v", len(z), L, len(data), len(p), err))
			return
		}
		out.Count("within_limit_read_in_full", 1)
		if _, p, err := c.ReadMessage(); err != nil || !bytes.Equal(p, follow) {
			fail("within-limit-message-refused", fmt.Sprintf("follower after a compressed message: %v", err))
			return
		}
		return
	}
	if err == nil {
		fail("over-limit-message-read-in-full", fmt.Sprintf("compressed message with %d payload bytes on the wire > L=%d was read to its end", len(z), L))
		return
	}
	if !errors.Is(err, ws.ErrReadLimit) {
		fail("over-limit-wrong-error", fmt.Sprintf("over-limit compressed message failed with %v, expected ErrReadLimit", err))
		return
	}
	out.Count("over_limit_refused", 1)
	wf, _, _ := wire.Decode(nc.Written())
	closes := 0
	for _, f := range wf {
		if f.Op == 8 {
			closes++
			if code, _, _ := wire.CloseBody(f.Payload); code != 1009 {
				fail("close-status", fmt.Sprintf("close sent with status %d, expected 1009", code))
				return
			}
		}
	}
	if closes != 1 {
		fail("close-1009-missing", fmt.Sprintf("%d close frames after a breach by a compressed message", closes))
		return
	}
	out.Count("close_1009_seen", 1)
}
