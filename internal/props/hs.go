package props

import (
	"bufio"
	"bytes"
	"context"
	"crypto/sha1"
	"encoding/base64"
	"errors"
	"net"
	"net/http"
	"strings"

	ws "github.com/gorilla/websocket"

	"verif/internal/xport"
)

// acceptDigest is the RFC 6455 section 1.3 / 4.2.2 computation, typed from the RFC.
func acceptDigest(key string) string {
	const guid = "258EAFA5-E914-47DA-95CA-C5AB0DC85B11"
	h := sha1.Sum([]byte(key + guid))
	return base64.StdEncoding.EncodeToString(h[:])
}

// fakeRW is an http.ResponseWriter + http.Hijacker spy.
type fakeRW struct {
	hdr        http.Header
	status     int
	body       bytes.Buffer
	hijacks    int
	conn       net.Conn
	brw        *bufio.ReadWriter
	hijackErr  error
	wroteAfter bool
}

func newFakeRW(conn net.Conn, br *bufio.Reader, wsize int) *fakeRW {
	if br == nil {
		br = bufio.NewReader(conn)
	}
	if wsize <= 0 {
		wsize = 4096
	}
	return &fakeRW{hdr: http.Header{}, conn: conn, brw: bufio.NewReadWriter(br, bufio.NewWriterSize(conn, wsize))}
}

func (w *fakeRW) Header() http.Header { return w.hdr }
func (w *fakeRW) WriteHeader(s int) {
	if w.status == 0 {
		w.status = s
	}
}
func (w *fakeRW) Write(p []byte) (int, error) {
	if w.status == 0 {
		w.status = 200
	}
	if w.hijacks > 0 {
		w.wroteAfter = true
	}
	return w.body.Write(p)
}
func (w *fakeRW) Hijack() (net.Conn, *bufio.ReadWriter, error) {
	w.hijacks++
	if w.hijackErr != nil {
		return nil, nil, w.hijackErr
	}
	return w.conn, w.brw, nil
}

// validRequest builds a minimal valid upgrade request.
func validRequest(key string) *http.Request {
	req, _ := http.NewRequest("GET", "http://example.test/ws", nil)
	req.Header["Connection"] = []string{"Upgrade"}
	req.Header["Upgrade"] = []string{"websocket"}
	req.Header["Sec-Websocket-Version"] = []string{"13"}
	req.Header["Sec-Websocket-Key"] = []string{key}
	req.Host = "example.test"
	return req
}

const someKey = "dGhlIHNhbXBsZSBub25jZQ=="

// prefilledReader returns a bufio.Reader of the given size over nc that has
// performed exactly one transport read (as net/http's would have).
func prefilledReader(nc net.Conn, size int, prefill bool) *bufio.Reader {
	br := bufio.NewReaderSize(nc, size)
	if prefill {
		br.Peek(1)
	}
	return br
}

// scriptedDial runs Dialer d against a scripted conn whose reply is produced by
// reply(requestBytes) once the request head is complete.
func scriptedDial(d *ws.Dialer, url string, hdr http.Header, reply func(req []byte) []xport.Chunk) (*ws.Conn, *http.Response, error, *xport.Conn) {
	nc := xport.New(nil)
	answered := false
	nc.OnWrite = func(all []byte) []xport.Chunk {
		if answered {
			return nil
		}
		if i := bytes.Index(all, []byte("\r\n\r\n")); i >= 0 {
			answered = true
			return reply(all[:i+4])
		}
		return nil
	}
	dd := *d
	dd.NetDialContext = func(ctx context.Context, network, addr string) (net.Conn, error) { return nc, nil }
	if strings.HasPrefix(url, "wss:") {
		// the application does TLS itself (NetDialTLSContext); the scripted conn stands for the
		// session it hands over. Dialer.TLSClientConfig stays whatever the caller set (often nil).
		dd.NetDialTLSContext = dd.NetDialContext
	}
	c, resp, err := dd.Dial(url, hdr)
	return c, resp, err, nc
}

// reqHeader extracts a header value from raw request bytes (first match).
func reqHeader(req []byte, name string) string {
	for _, line := range strings.Split(string(req), "\r\n")[1:] {
		if i := strings.Index(line, ":"); i > 0 && strings.EqualFold(line[:i], name) {
			return strings.TrimSpace(line[i+1:])
		}
	}
	return ""
}

func good101(req []byte, extra string) []byte {
	key := reqHeader(req, "Sec-WebSocket-Key")
	return []byte("HTTP/1.1 101 Switching Protocols\r\nUpgrade: websocket\r\nConnection: Upgrade\r\nSec-WebSocket-Accept: " + acceptDigest(key) + "\r\n" + extra + "\r\n")
}

var errNoConn = errors.New("no conn")
