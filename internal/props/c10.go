package props

import (
	"bytes"
	"fmt"
	"sync"
	"time"

	ws "github.com/gorilla/websocket"

	"verif/internal/core"
	"verif/internal/gen"
	"verif/internal/wire"
	"verif/internal/xport"
)

func init() {
	core.Register(&core.Prop{
		ID:    "C10",
		Level: "fault_enumeration",
		Rule: "per generated write program (with invalid requests at drawn positions and a distinct deadline on every SetWriteDeadline/WriteControl): a clean run records the transport operations; then EVERY operation index k (SetWriteDeadline or Write) x {error, timeout, short write + error} is injected and the program re-run with the same mask keys; " +
			"distinct = (program hash, k, fault kind); non-trivial = k > 0 (the fault lands after something was already written)",
		Variants: core.PlainOnly,
		Cases: func(tier, variant string) int {
			if tier == "thorough" {
				return 40000
			}
			return 2500
		},
		Run:          runC10,
		BeatTimeoutS: 120,
		Required:     []string{"faults_injected", "later_calls_checked", "invalid_requests_checked", "deadline_pairs_checked"},
		Assumptions: []string{
			"mask keys are replayed from a deterministic source (VerifSetMaskRand) so that the faulted run is byte-comparable with the clean run",
			"exhaustive over operation index x fault kind for each generated program; programs are sampled",
		},
	})
}

var isMsgLevel = map[string]bool{"WriteMessage": true, "NextWriter": true, "WriteControl": true, "WriteJSON": true, "WritePreparedMessage": true, "Close": true}

type c10Run struct {
	nc    *xport.Conn
	w     *Writer
	bytes []byte
	ops   []xport.Op
}

func c10Exec(cfg Cfg, prog []WStep, seed uint64, faultAt int, fk xport.FaultKind) *c10Run {
	tp, _ := installTap()
	tp.det = gen.New(seed)
	defer func() { tp.det = nil }()
	nc := xport.New(nil)
	nc.Counted = func(k xport.OpKind) bool { return k == xport.OpWrite || k == xport.OpSetWriteDeadline }
	if faultAt >= 0 {
		nc.FaultAt = map[int]xport.FaultKind{faultAt: fk}
	}
	pool := &TrackPool{}
	c := newConn(nc, cfg, pool, 0)
	w := NewWriter(c, cfg)
	w.CloseStale = true
	w.NC = nc
	w.RunProgram(prog)
	if faultAt >= 0 {
		// one call of every message-level write API afterwards
		tail := []WStep{
			{Kind: WMsg, Type: 2, payload: []byte("after-fault-1")},
			{Kind: WNext, Type: 1, payload: []byte("after-fault-2"), Parts: []Part{{How: PartWrite, N: 13}}, Explicit: true},
			{Kind: WControl, Type: 9, payload: []byte("after-fault-3")},
			{Kind: WJSON, jsonVal: "after-fault-4", payload: []byte("\"after-fault-4\"\n")},
			{Kind: WPrepared, Type: 2, payload: []byte("after-fault-5")},
			{Kind: WControl, Type: 8, payload: wire.MkClose(1000, "")},
		}
		for i, s := range tail {
			w.Do(len(prog)+1+i, s)
		}
	}
	return &c10Run{nc: nc, w: w, bytes: nc.Written(), ops: nc.Ops()}
}

func runC10(ctx *core.Ctx, out *core.Out) {
	r := ctx.R
	if ctx.Idx%25 == 7 {
		c10ConcurrentFault(ctx, out)
		return
	}
	cfg := genCfg(r)
	max := 3000
	if r.Chance(1, 6) {
		max = 70000
	}
	if cfg.WB < 64 {
		max = 600
	} else if max > 40*cfg.WB {
		max = 40 * cfg.WB // keeps the number of transport operations (and so of fault points) affordable
	}
	prog := genProgram(r, cfg, ProgOpts{MaxMsgs: 4, MaxSize: max, Invalid: true, Deadlines: true})
	desc := rtCase{Cfg: cfg, Prog: progDesc(prog)}
	seed := r.U64()
	fail := func(sig, what string, extra map[string]interface{}) {
		d := map[string]interface{}{"case": desc}
		for k, v := range extra {
			d[k] = v
		}
		out.Violate("C10:"+sig, what, d)
	}

	// ---- clean run: invalid requests and deadlines
	clean := c10Exec(cfg, prog, seed, -1, 0)
	ph := core.Hash(core.J(desc))
	out.EvalH(ph, true)
	for _, cl := range clean.w.Calls {
		if cl.Invalid {
			out.Count("invalid_requests_checked", 1)
			if cl.Err == nil {
				fail("invalid-request-accepted", fmt.Sprintf("invalid request %s at step %d (%s) returned nil", cl.Name, cl.Step, stepDesc(prog, cl.Step)), nil)
				return
			}
		} else if cl.Err != nil && cl.Step < len(prog) && prog[cl.Step].Kind != WInvalid {
			fail("valid-request-refused", fmt.Sprintf("%s at step %d (%s) returned %v on a healthy connection", cl.Name, cl.Step, stepDesc(prog, cl.Step), cl.Err), nil)
			return
		}
	}
	// an invalid step writes nothing beyond the implicit completion of an open message
	for i, s := range prog {
		if s.Kind != WInvalid {
			continue
		}
		var before, after int
		first := true
		for _, cl := range clean.w.Calls {
			if cl.Step == i {
				if first {
					before, first = cl.BytesBefore, false
				}
				after = cl.BytesAfter
			}
		}
		openBefore := false
		for j := 0; j < i; j++ {
			switch k := prog[j].Kind; {
			case k == WNext:
				openBefore = !prog[j].Explicit
			case k == WMsg, k == WJSON, k == WPrepared, k == WCtlMsg, k == WCtlNext:
				openBefore = false
			case k == WInvalid && prog[j].Invalid != 6 && prog[j].Invalid != 7:
				openBefore = false
			}
		}
		startsMessage := s.Invalid != 6 && s.Invalid != 7
		if after != before && !(openBefore && startsMessage) {
			fail("invalid-request-wrote-bytes", fmt.Sprintf("invalid request at step %d (%s) put %d bytes on the wire", i, s.Desc(), after-before), nil)
			return
		}
	}
	// the whole clean stream is still well-formed and complete (invalid requests poisoned nothing)
	cr := &rtRun{prog: prog, w: clean.w, wconn: clean.nc, written: clean.bytes}
	sub := core.NewOut()
	if !judgeWire(sub, "C10:clean-run", desc, cfg, prog, cr, nil, false) {
		for _, v := range sub.Viols {
			out.Violate(v.Signature, "after invalid requests / deadline changes the stream is no longer right: "+v.What, v.Detail)
		}
		return
	}
	// no write-side call may touch the transport's READ deadline (the application never set one here)
	if rd, _ := clean.nc.Deadlines(); !rd.IsZero() {
		fail("write-side-call-armed-the-read-deadline", fmt.Sprintf("after a program of write-side calls the transport's read deadline is %v although the application never set one: a blocked reader would time out with it", dlName(clean.w, rd)), nil)
		return
	}
	for _, op := range clean.ops {
		if op.Kind == xport.OpSetDeadline || op.Kind == xport.OpSetReadDeadline {
			fail("write-side-call-armed-the-read-deadline", fmt.Sprintf("a write-side call used %s on the transport", op.Kind), map[string]interface{}{"ops": opsDesc(clean.ops)})
			return
		}
	}
	// deadlines as identifiers: at every transport Write the write deadline armed on
	// the transport (the last SetWriteDeadline/SetDeadline it saw; none = zero) must be
	// the one the property names for that frame
	{
		var armed time.Time
		callOf := make([]int, len(clean.ops))
		for i := range callOf {
			callOf[i] = -1
		}
		for ci, cl := range clean.w.Calls {
			for oi := cl.OpsBefore; oi < cl.OpsAfter && oi < len(callOf); oi++ {
				callOf[oi] = ci
			}
		}
		for oi, op := range clean.ops {
			switch op.Kind {
			case xport.OpSetWriteDeadline, xport.OpSetDeadline:
				armed = op.T
			case xport.OpWrite:
				if callOf[oi] < 0 {
					continue
				}
				cl := clean.w.Calls[callOf[oi]]
				out.Count("deadline_pairs_checked", 1)
				if !armed.Equal(cl.Deadline) || armed.IsZero() != cl.Deadline.IsZero() {
					which := "the deadline last given to SetWriteDeadline"
					if cl.Name == "WriteControl" {
						which = "WriteControl's own deadline argument"
					}
					sig := "wrong-deadline"
					if cl.Deadline.IsZero() {
						sig = "write-without-deadline" // a stale deadline is still armed where none should be
					}
					fail(sig, fmt.Sprintf("frame written during %s (step %d) while the transport's write deadline is %v; expected %s = %v", cl.Name, cl.Step, dlName(clean.w, armed), which, dlName(clean.w, cl.Deadline)), map[string]interface{}{"ops": opsDesc(clean.ops[cl.OpsBefore:cl.OpsAfter])})
					return
				}
			}
		}
	}

	// ---- fault enumeration
	nops := clean.nc.CountedOps()
	for k := 0; k < nops; k++ {
		for _, fk := range []xport.FaultKind{xport.FaultErr, xport.FaultTimeout, xport.FaultShort, xport.FaultNoDeadline, xport.FaultShortWrapped, xport.FaultShortTimeout} {
			out.EvalH(ph^uint64(k+1)<<20^uint64(fk)<<8, k > 0)
			fr := c10Exec(cfg, prog, seed, k, fk)
			if fr.nc.FaultsHit == 0 {
				continue // short-write fault index landed on a deadline op after divergence; nothing injected
			}
			out.Count("faults_injected", 1)
			d := map[string]interface{}{"fault_at_op": k, "fault": fk.String()}
			// where did the fault fire (log index)?
			fi := -1
			for i, op := range fr.ops {
				if op.Err != nil && (op.Kind == xport.OpWrite || op.Kind == xport.OpSetWriteDeadline) {
					fi = i
					break
				}
			}
			if fi < 0 {
				out.Violate("harness:c10", "fault counted as hit but no failing op in the log", nil)
				return
			}
			// nothing is written after the failing operation
			for _, op := range fr.ops[fi+1:] {
				if op.Kind == xport.OpWrite {
					d["ops_after_fault"] = opsDesc(fr.ops[fi:])
					fail("write-after-failure", fmt.Sprintf("a transport Write (%d bytes offered) happened after the transport had failed at operation %d", op.Want, k), d)
					return
				}
			}
			// bytes on the wire: a prefix of the clean run, valid frames + at most one incomplete
			if !bytes.HasPrefix(clean.bytes, fr.bytes) {
				d["first_difference"] = diffAt(clean.bytes, fr.bytes)
				fail("not-a-prefix", "bytes written before the failure are not a prefix of what the fault-free run writes", d)
				return
			}
			frames, _, derr := wire.Decode(fr.bytes)
			if derr != nil {
				fail("garbage-before-failure", fmt.Sprintf("bytes written before the failure do not decode: %v", derr), d)
				return
			}
			if _, _, v := wire.Validate(frames, !cfg.Server, cfg.Comp); v != nil {
				fail("invalid-frames-before-failure", "frames written before the failure are ill-formed: "+v.Error(), d)
				return
			}
			// every message-level call at or after the failure fails
			for _, cl := range fr.w.Calls {
				if !isMsgLevel[cl.Name] || cl.OpsAfter <= fi {
					if cl.Err != nil && !cl.Invalid && cl.OpsAfter <= fi && cl.Step < len(prog) && prog[cl.Step].Kind != WInvalid {
						fail("error-before-failure", fmt.Sprintf("%s at step %d failed with %v before the transport fault", cl.Name, cl.Step, cl.Err), d)
						return
					}
					continue
				}
				out.Count("later_calls_checked", 1)
				if cl.Err == nil {
					when := "after"
					if cl.OpsBefore <= fi {
						when = "during"
					}
					d["call"] = fmt.Sprintf("%s at step %d", cl.Name, cl.Step)
					fail("call-succeeds-"+when+"-failure:"+cl.Name, fmt.Sprintf("%s (step %d) returned nil although the transport failed %s it at operation %d (%s)", cl.Name, cl.Step, when, k, fk), d)
					return
				}
			}
		}
	}
	if ctx.Idx%97 == 0 {
		out.Sample(map[string]interface{}{"case": desc, "transport_ops": nops, "clean_ops": opsDesc(clean.ops)})
	}
}

func stepDesc(prog []WStep, i int) string {
	if i >= 0 && i < len(prog) {
		return prog[i].Desc()
	}
	return "trailer"
}

func dlName(w *Writer, t time.Time) string {
	if t.IsZero() {
		return "zero"
	}
	return fmt.Sprintf("#%d", int64(t.Sub(w.Base)/time.Hour))
}

func opsDesc(ops []xport.Op) []string {
	var out []string
	for i, op := range ops {
		if i > 30 {
			out = append(out, "...")
			break
		}
		s := op.Kind.String()
		switch op.Kind {
		case xport.OpWrite:
			s += fmt.Sprintf("(%d/%d)", len(op.Data), op.Want)
		case xport.OpSetWriteDeadline:
			if op.T.IsZero() {
				s += "(zero)"
			} else {
				s += fmt.Sprintf("(#%d)", int64(op.T.Sub(time.Unix(4000000000, 0))/time.Hour))
			}
		}
		if op.Err != nil {
			s += "!" + op.Err.Error()
		}
		out = append(out, s)
	}
	return out
}

var _ = ws.CloseMessage

// c10ConcurrentFault: a data write is in flight inside the transport (held by a
// gate) while WriteControl callers queue behind it; the in-flight write then
// fails. Nothing may be written afterwards and every queued caller must fail.
func c10ConcurrentFault(ctx *core.Ctx, out *core.Out) {
	r := ctx.R
	cfg := genCfg(r)
	if cfg.WB < 64 {
		cfg.WB = 64
	}
	fk := []xport.FaultKind{xport.FaultErr, xport.FaultTimeout, xport.FaultShort}[r.Intn(3)]
	nc := xport.New(nil)
	nc.Counted = func(k xport.OpKind) bool { return k == xport.OpWrite }
	nc.FaultAt = map[int]xport.FaultKind{0: fk}
	gate := make(chan struct{})
	nc.Gate = gate
	nc.GateIf = func(p []byte) bool { return true }
	nc.Gated = make(chan struct{}, 1)
	c := newConn(nc, cfg, &TrackPool{}, 0)
	ncall := r.Range(1, 4)
	var wg sync.WaitGroup
	var werr error
	wg.Add(1)
	go func() {
		defer wg.Done()
		werr = c.WriteMessage(2, r.Payload(gen.PCounter, 300))
	}()
	released := false
	release := func() {
		if !released {
			released = true
			close(gate)
		}
	}
	defer release()
	select {
	case <-nc.Gated:
	case <-time.After(20 * time.Second):
		out.Inconcl("the writer never reached the transport")
		return
	}
	errs := make([]error, ncall)
	for k := 0; k < ncall; k++ {
		wg.Add(1)
		go func(k int) {
			defer wg.Done()
			errs[k] = c.WriteControl(9, []byte(fmt.Sprintf("queued-%d", k)), time.Time{})
		}(k)
	}
	time.Sleep(time.Duration(500+ctx.Idx%1500) * time.Microsecond) // let them queue on the write lock
	release()
	done := make(chan struct{})
	go func() { wg.Wait(); close(done) }()
	select {
	case <-done:
	case <-time.After(30 * time.Second):
		out.Violate("C10:hang-after-concurrent-fault", "callers queued behind a failed write had not returned 30 s later", map[string]interface{}{"cfg": cfg})
		return
	}
	out.Count("faults_injected", 1)
	out.Count("concurrent_fault_runs", 1)
	out.Eval(fmt.Sprintf("concfault|%s|%d|%d", cfg, fk, ncall), true)
	d := map[string]interface{}{"cfg": cfg, "fault": fk.String(), "queued_writecontrol_callers": ncall, "ops": opsDesc(nc.Ops())}
	if werr == nil {
		out.Violate("C10:call-succeeds-during-failure:WriteMessage", "WriteMessage returned nil although its transport write failed", d)
		return
	}
	writes := 0
	for _, op := range nc.Ops() {
		if op.Kind == xport.OpWrite {
			writes++
		}
	}
	if writes > 1 {
		out.Violate("C10:write-after-failure", fmt.Sprintf("%d transport writes happened although the first one failed: callers that were queued on the write lock wrote after the failure", writes), d)
		return
	}
	for k, e := range errs {
		out.Count("later_calls_checked", 1)
		if e == nil {
			out.Violate("C10:call-succeeds-after-failure:WriteControl", fmt.Sprintf("WriteControl #%d, queued behind a write that failed, returned nil", k), d)
			return
		}
	}
	if e := c.WriteMessage(1, []byte("later")); e == nil {
		out.Violate("C10:call-succeeds-after-failure:WriteMessage", "WriteMessage after the failure returned nil", d)
	}
}
