package props

import (
	"bufio"
	"bytes"
	"context"
	"crypto/tls"
	"encoding/base64"
	"fmt"
	"io"
	"net"
	"net/http"
	"net/textproto"
	"sort"
	"strings"
	"sync"
	"time"

	ws "github.com/gorilla/websocket"

	"verif/internal/core"
	"verif/internal/gen"
	"verif/internal/httpx"
	"verif/internal/wire"
	"verif/internal/xport"
)

const (
	cValid = iota
	cInvalid
	cUnclear
)

var className = []string{"valid", "invalid", "unclear"}

// hsReq is a generated opening handshake plus the classifier's view of it.
type hsReq struct {
	Method  string              `json:"method"`
	Host    string              `json:"host"`
	Target  string              `json:"target,omitempty"`
	H       map[string][]string `json:"headers"` // canonical name -> raw values (one per header line)
	Order   []string            `json:"-"`
	Classes map[string]string   `json:"classes"`
	classOf map[string]int
}

func (q *hsReq) set(name string, lines []string, class int) {
	if lines != nil {
		q.H[name] = lines
		q.Order = append(q.Order, name)
	}
	q.classOf[name] = class
	q.Classes[name] = className[class]
}

func caseVariant(r *gen.R, s string) string {
	switch r.Intn(4) {
	case 0:
		return s
	case 1:
		return strings.ToUpper(s)
	case 2:
		return strings.Title(s)
	default:
		b := []byte(s)
		for i := range b {
			if r.Bool() && b[i] >= 'a' && b[i] <= 'z' {
				b[i] -= 32
			}
		}
		return string(b)
	}
}

func ows(r *gen.R) string { return []string{"", "", " ", "\t", "  ", " \t "}[r.Intn(6)] }

// genTokenLines draws header lines for a 1#token header that should (or not)
// contain tok.
func genTokenLines(r *gen.R, tok string, near []string) []string {
	others := []string{"keep-alive", "foo", "h2c", "x-y", "TE"}
	el := func(s string) string { return ows(r) + s + ows(r) }
	T := func() string { return caseVariant(r, tok) }
	switch r.Intn(16) {
	case 0, 1, 2, 3:
		return []string{el(T())}
	case 4:
		return []string{el(others[r.Intn(len(others))]) + "," + el(T())}
	case 5:
		return []string{el(T()) + "," + el(others[r.Intn(len(others))])}
	case 6:
		return []string{others[r.Intn(len(others))], el(T())}
	case 7:
		return []string{el(others[r.Intn(len(others))]) + "," + el(others[r.Intn(len(others))]) + "," + el(T()) + "," + el("bar")}
	case 8:
		return nil // absent
	case 9:
		return []string{el(near[r.Intn(len(near))])}
	case 10:
		return []string{el(others[r.Intn(len(others))]) + "," + el(near[r.Intn(len(near))])}
	case 11:
		return []string{near[r.Intn(len(near))], others[r.Intn(len(others))]}
	case 12:
		return []string{""}
	case 13: // unclear shapes
		return []string{[]string{"," + T(), T() + ",", "a,," + T(), "a b, " + T(), T() + ", \"q\"", "a;b, " + T()}[r.Intn(6)]}
	case 14:
		return []string{"bad value here", el(T())} // a malformed line and a good one
	default:
		return []string{el(T()) + "," + el(T())}
	}
}

func classOfList(lines []string, tok string) int {
	// whatever a parser makes of malformed lines: when no line holds the token's letters at all
	// (ASCII case-insensitively), the token is not there
	found := false
	for _, l := range lines {
		b := []byte(l)
		for i := range b {
			if b[i] >= 'A' && b[i] <= 'Z' {
				b[i] += 32
			}
		}
		if bytes.Contains(b, []byte(tok)) {
			found = true
		}
	}
	if !found {
		return cInvalid
	}
	switch httpx.ClassifyList(lines, tok) {
	case httpx.ListHas:
		return cValid
	case httpx.ListNone:
		return cInvalid
	}
	return cUnclear
}

func genKey(r *gen.R) ([]string, int) {
	std := base64.StdEncoding
	switch r.Intn(12) {
	case 0, 1, 2, 3, 4:
		return []string{std.EncodeToString(r.Bytes(16))}, cValid
	case 5:
		return nil, cInvalid
	case 6, 7:
		n := r.Intn(33)
		for n == 16 {
			n = r.Intn(33)
		}
		return []string{std.EncodeToString(r.Bytes(n))}, cInvalid
	case 8:
		k := []byte(std.EncodeToString(r.Bytes(16)))
		k[r.Intn(22)] = "*-_.!@$%"[r.Intn(8)]
		return []string{string(k)}, cInvalid
	case 9:
		// non-canonical trailing bits
		k := []byte(std.EncodeToString(r.Bytes(16)))
		const al = "ABCDEFGHIJKLMNOPQRSTUVWXYZabcdefghijklmnopqrstuvwxyz0123456789+/"
		i := strings.IndexByte(al, k[21])
		k[21] = al[(i&^0xf)|((i+1)&0xf)]
		return []string{string(k)}, cUnclear
	case 10:
		return []string{base64.RawStdEncoding.EncodeToString(r.Bytes(16))}, cUnclear
	default:
		return []string{std.EncodeToString(r.Bytes(16)), std.EncodeToString(r.Bytes(16))}, cUnclear
	}
}

func genVersion(r *gen.R) ([]string, int) {
	var lines []string
	switch r.Intn(12) {
	case 0, 1, 2, 3, 4, 5:
		lines = []string{ows(r) + "13" + ows(r)}
	case 6:
		lines = nil
	case 7:
		lines = []string{[]string{"8", "12", "14", "013", "13.0", "1 3", "", "1", "3", "130", "thirteen", "-13", "0x0d"}[r.Intn(13)]}
	case 8:
		lines = []string{"13, 8"}
	case 9:
		lines = []string{"8, 13"}
	case 10:
		lines = []string{"8", "13"}
	default:
		lines = []string{"7, 8"}
	}
	switch {
	case len(lines) == 1 && strings.Trim(lines[0], " \t") == "13":
		return lines, cValid
	case httpx.ClassifyList(lines, "13") == httpx.ListNone:
		return lines, cInvalid
	}
	return lines, cUnclear
}

type upCfg struct {
	Subprotocols []string            `json:"subprotocols"` // nil vs empty matters
	SubNil       bool                `json:"subprotocols_nil"`
	Compress     bool                `json:"enable_compression"`
	RB, WB       int                 `json:"-"`
	Pool         bool                `json:"pool"`
	CheckOrigin  int                 `json:"check_origin"` // 0 nil, 1 always true, 2 always false
	RespHdr      map[string][]string `json:"response_header"`
	RespNil      bool                `json:"response_header_nil"`
	WarmUp       bool                `json:"reused_after_an_earlier_upgrade,omitempty"`
	CustomErr    bool                `json:"custom_error_func,omitempty"` // Upgrader.Error set: it must get every refusal, exactly once
	Deploy       *deployCtx          `json:"deployment,omitempty"`
}

// deployCtx is the setting the handler runs in; none of it is part of any handshake rule.
type deployCtx struct {
	Unix   bool                `json:"unix_socket_listener,omitempty"` // the http.Server listens on a Unix-domain socket (behind a reverse proxy)
	TLS    bool                `json:"request_arrived_over_tls,omitempty"`
	Remote string              `json:"remote_addr,omitempty"`
	PreHdr map[string][]string `json:"headers_already_set_by_middleware,omitempty"` // on the ResponseWriter before Upgrade runs
}

var unixLocalAddr = &net.UnixAddr{Name: "/run/app/ws.sock", Net: "unix"}

func genDeploy(r *gen.R, origins []string) *deployCtx {
	d := &deployCtx{Unix: r.Chance(1, 3), TLS: r.Chance(1, 3)}
	d.Remote = []string{"", "127.0.0.1:50000", "[::1]:50000", "@", "10.0.0.7:1234", "192.168.1.5:80"}[r.Intn(6)]
	if r.Bool() {
		d.PreHdr = map[string][]string{}
		o := "*"
		if len(origins) > 0 && r.Bool() {
			o = origins[0] // a CORS layer that reflects the request's Origin
		}
		for i, n := 0, r.Range(1, 3); i < n; i++ {
			switch r.Intn(5) {
			case 0, 1:
				d.PreHdr["Access-Control-Allow-Origin"] = []string{o}
			case 2:
				d.PreHdr["Access-Control-Allow-Credentials"] = []string{"true"}
				d.PreHdr["Vary"] = []string{"Origin"}
			case 3:
				d.PreHdr["X-Frame-Options"] = []string{"SAMEORIGIN"}
			default:
				d.PreHdr["Strict-Transport-Security"] = []string{"max-age=63072000"}
			}
		}
	}
	return d
}

func (d *deployCtx) applyReq(req *http.Request, host string) *http.Request {
	if d == nil {
		return req
	}
	if d.Unix {
		req = req.WithContext(context.WithValue(req.Context(), http.LocalAddrContextKey, net.Addr(unixLocalAddr)))
	}
	if d.TLS {
		req.TLS = &tls.ConnectionState{HandshakeComplete: true, ServerName: host, Version: tls.VersionTLS13}
	}
	req.RemoteAddr = d.Remote
	return req
}

func (d *deployCtx) applyW(w http.ResponseWriter) {
	if d == nil {
		return
	}
	for k, v := range d.PreHdr {
		w.Header()[k] = append([]string(nil), v...)
	}
}

// unixConn makes an in-memory connection look as if accepted from a Unix-domain socket listener.
type unixConn struct{ net.Conn }

func (unixConn) LocalAddr() net.Addr  { return unixLocalAddr }
func (unixConn) RemoteAddr() net.Addr { return &net.UnixAddr{Name: "@", Net: "unix"} }

// errSpy is an Upgrader.Error function that answers like the default one and records its calls.
type errSpy struct {
	mu      sync.Mutex
	calls   int
	status  int
	reason  error
	written bool // the ResponseWriter already carried a status when Error was called
}

func (e *errSpy) fn(w http.ResponseWriter, r *http.Request, status int, reason error) {
	e.mu.Lock()
	e.calls++
	e.status, e.reason = status, reason
	if f, ok := w.(*fakeRW); ok && f.status != 0 {
		e.written = true
	}
	e.mu.Unlock()
	w.Header().Set("Sec-Websocket-Version", "13")
	http.Error(w, http.StatusText(status), status)
}

var hostileValues = []string{
	"plain", "", "a\r\nX-Injected: 1", "a\nX-Injected: 1", "a\rX-Injected: 1", "\r\n\r\nHTTP/1.1 200 OK\r\n\r\n", "nul\x00byte", "tab\tbed", "hi\x7f", "h\xc3\xa9llo", "\xff\xfe", "trailing\r\n", "\r", "\n", "a\x0bb\x0cc", "x: y",
}

func genUpCfg(r *gen.R) upCfg {
	u := upCfg{Compress: r.Bool(), RB: []int{0, 1, 100, 4096}[r.Intn(4)], WB: []int{0, 1, 100, 4096}[r.Intn(4)], Pool: r.Chance(1, 5)}
	switch r.Intn(6) {
	case 0, 1:
		u.SubNil = true
	case 2:
		u.Subprotocols = []string{}
	case 3:
		u.Subprotocols = []string{"chat"}
	case 4:
		u.Subprotocols = []string{"superchat", "chat"}
	default:
		u.Subprotocols = [][]string{{"x", "v2.json"}, {"unoffered", "chat"}, {"zzz"}, {"unoffered", "also-not", "superchat"}}[r.Intn(4)]
	}
	if r.Chance(1, 6) {
		u.CheckOrigin = 1 + r.Intn(2)
	}
	u.WarmUp = r.Chance(1, 5)
	u.CustomErr = r.Chance(1, 5)
	if r.Chance(1, 4) {
		u.Deploy = genDeploy(r, nil)
	}
	switch r.Intn(7) {
	case 0:
		u.RespNil = true
	case 1:
		u.RespHdr = map[string][]string{}
	case 2:
		u.RespHdr = map[string][]string{"Set-Cookie": {"a=b", "c=d; Path=/"}}
	case 3, 4:
		u.RespHdr = map[string][]string{}
		for i, n := 0, r.Range(1, 3); i < n; i++ {
			k := []string{"X-App", "Set-Cookie", "X-Trace-Id", "Server"}[r.Intn(4)]
			u.RespHdr[k] = append(u.RespHdr[k], hostileValues[r.Intn(len(hostileValues))])
		}
	case 5:
		if r.Bool() {
			// documented as unsupported: whatever Upgrade does with it, a 101 must not announce
			// permessage-deflate unless the client offered it and the server enabled it
			u.RespHdr = map[string][]string{"Sec-Websocket-Extensions": {"permessage-deflate"}, "X-App": {"1"}}
			break
		}
		fallthrough
	default:
		u.RespHdr = map[string][]string{"Sec-Websocket-Protocol": {[]string{"chat", "app-chosen", "chat\r\nX-Injected: 1", "a\nb", "v\x00"}[r.Intn(5)]}}
		if r.Bool() {
			u.RespHdr["X-App"] = []string{hostileValues[r.Intn(len(hostileValues))]}
		}
	}
	return u
}

func (u upCfg) build() (*ws.Upgrader, http.Header, *errSpy) {
	up := &ws.Upgrader{ReadBufferSize: u.RB, WriteBufferSize: u.WB, EnableCompression: u.Compress}
	var spy *errSpy
	if u.CustomErr {
		spy = &errSpy{}
		up.Error = spy.fn
	}
	if !u.SubNil {
		up.Subprotocols = append([]string{}, u.Subprotocols...)
	}
	if u.Pool {
		up.WriteBufferPool = (&TrackPool{}).Front(0)
	}
	switch u.CheckOrigin {
	case 1:
		up.CheckOrigin = func(*http.Request) bool { return true }
	case 2:
		up.CheckOrigin = func(*http.Request) bool { return false }
	}
	var h http.Header
	if !u.RespNil {
		h = http.Header{}
		for k, v := range u.RespHdr {
			h[k] = append([]string(nil), v...)
		}
	}
	return up, h, spy
}

func genHsReq(r *gen.R, u upCfg) *hsReq {
	q := &hsReq{H: map[string][]string{}, Classes: map[string]string{}, classOf: map[string]int{}, Host: "server.example.com", Target: "/chat?x=1"}
	q.Method = "GET"
	q.classOf["method"] = cValid
	if r.Chance(1, 10) {
		q.Method = []string{"POST", "HEAD", "PUT", "get", "OPTIONS", "DELETE"}[r.Intn(6)]
		q.classOf["method"] = cInvalid
	}
	q.Classes["method"] = className[q.classOf["method"]]
	// mode 0: every component drawn freely; 1: all valid; 2: all valid but one
	mode := r.Intn(3)
	free := -1
	if mode == 2 {
		free = r.Intn(5)
	}
	forced := func(i int) bool { return mode != 0 && i != free }
	if forced(4) && q.classOf["method"] != cValid {
		q.Method = "GET"
		q.classOf["method"] = cValid
		q.Classes["method"] = "valid"
	}
	var cl, ul, vl, kl []string
	var vc, kc int
	for try := 0; try < 50; try++ {
		cl = genTokenLines(r, "upgrade", []string{"upgrades", "xupgrade", "upgrade;q=1", "up grade", "\"upgrade\"", "upgrad", "upgrade/1", "Upgrade-Insecure"})
		if !forced(0) || classOfList(cl, "upgrade") == cValid {
			break
		}
	}
	q.set("Connection", cl, classOfList(cl, "upgrade"))
	for try := 0; try < 50; try++ {
		ul = genTokenLines(r, "websocket", []string{"websockets", "web socket", "websocket/13", "xwebsocket", "\"websocket\"", "websocke", "websocket;v=13", "h2c", "web\u017focket", "websoc\u212aet", "WEB\u017fOC\u212aET"})
		if !forced(1) || classOfList(ul, "websocket") == cValid {
			break
		}
	}
	q.set("Upgrade", ul, classOfList(ul, "websocket"))
	for try := 0; try < 50; try++ {
		vl, vc = genVersion(r)
		if !forced(2) || vc == cValid {
			break
		}
	}
	q.set("Sec-Websocket-Version", vl, vc)
	for try := 0; try < 50; try++ {
		kl, kc = genKey(r)
		if !forced(3) || kc == cValid {
			break
		}
	}
	q.set("Sec-Websocket-Key", kl, kc)
	// origin
	oc := cValid
	var ol []string
	switch r.Intn(8) {
	case 0:
		ol = []string{"http://" + q.Host}
	case 1:
		ol = []string{"https://" + strings.ToUpper(q.Host)}
	case 2:
		if mode != 1 {
			ol = []string{"http://evil.example.net"}
			oc = cInvalid
		}
	case 3:
		if mode != 1 {
			// the same name on another port is another origin
			ol = []string{"https://" + q.Host + []string{":8443", ":80", ":"}[r.Intn(3)]}
			oc = cInvalid
		}
	}
	switch u.CheckOrigin {
	case 1:
		oc = cValid
	case 2:
		oc = cInvalid
	}
	q.set("Origin", ol, oc)
	// offers
	switch r.Intn(10) {
	case 9:
		// elements with interior whitespace are not tokens; whatever the server makes of the offer,
		// it must not select a name that is no comma-separated element of it
		q.set("Sec-Websocket-Protocol", []string{[]string{"chat v2", "mqtt, wamp\tchat", "super chat, x y", "v2.json chat"}[r.Intn(4)]}, cUnclear)
	case 7:
		// subprotocol names are case-sensitive tokens: these match nothing the server supports
		q.set("Sec-Websocket-Protocol", []string{[]string{"Chat", "CHAT, SuperChat", "V2.JSON, X", "cHAT"}[r.Intn(4)]}, cValid)
	case 8:
		q.set("Sec-Websocket-Protocol", []string{"Chat, superchat", "X"}, cValid)
	case 0:
		q.set("Sec-Websocket-Protocol", []string{"chat"}, cValid)
	case 1:
		q.set("Sec-Websocket-Protocol", []string{"chat, superchat"}, cValid)
	case 2:
		q.set("Sec-Websocket-Protocol", []string{" superchat ,chat,x "}, cValid)
	case 3:
		q.set("Sec-Websocket-Protocol", []string{"v2.json", "chat"}, cValid)
	case 4:
		q.set("Sec-Websocket-Protocol", []string{"a, b, chat, d, superchat"}, cValid)
	}
	switch r.Intn(10) {
	case 0:
		q.set("Sec-Websocket-Extensions", []string{"permessage-deflate"}, cValid)
	case 1:
		q.set("Sec-Websocket-Extensions", []string{"permessage-deflate; client_max_window_bits"}, cValid)
	case 2:
		q.set("Sec-Websocket-Extensions", []string{"foo, permessage-deflate; server_no_context_takeover"}, cValid)
	case 3:
		q.set("Sec-Websocket-Extensions", []string{"x-webkit-deflate-frame"}, cValid)
	case 4:
		q.set("Sec-Websocket-Extensions", []string{"permessage-deflate; server_max_window_bits=\"10\"", "bar; baz=1"}, cValid)
	case 5:
		q.set("Sec-Websocket-Extensions", []string{[]string{"PERMESSAGE-DEFLATE", ";;", "permessage-deflate;", "=permessage-deflate", "permessage-deflate \"x", "a=\"\\", "permessage-deflatex"}[r.Intn(7)]}, cValid)
	case 6:
		q.set("Sec-Websocket-Extensions", []string{"foo; a=\"b\\\"c\", permessage-deflate"}, cValid)
	case 7:
		// the token only inside a quoted string (with and without escapes): not an offer
		q.set("Sec-Websocket-Extensions", []string{[]string{
			"foo; bar=\"a\\\", permessage-deflate, x=\"",
			"foo; bar=\"permessage-deflate\"",
			"foo; bar=\"x, permessage-deflate\"",
			"foo; bar=\"\\\\\", baz; q=\", permessage-deflate\"",
			"foo; bar=\"a\\\\\\\", permessage-deflate ,\"",
		}[r.Intn(5)]}, cValid)
	}
	return q
}

// overall classifies the whole request.
func (q *hsReq) overall(u upCfg) (int, []string) {
	c, why, _ := q.overall3(u)
	return c, why
}

// overall3 also reports whether every component other than the invalid ones is
// clearly valid (only then is a specific status code demanded).
func (q *hsReq) overall3(u upCfg) (int, []string, bool) {
	var invalid []string
	unclear := false
	for _, k := range []string{"method", "Connection", "Upgrade", "Sec-Websocket-Version", "Sec-Websocket-Key", "Origin"} {
		switch q.classOf[k] {
		case cInvalid:
			invalid = append(invalid, k)
		case cUnclear:
			unclear = true
		}
	}
	if _, ok := u.RespHdr["Sec-Websocket-Extensions"]; ok {
		unclear = true
	}
	if len(invalid) > 0 {
		return cInvalid, invalid, !unclear
	}
	if unclear {
		return cUnclear, nil, false
	}
	return cValid, nil, true
}

// offered subprotocols / extension offer classification
func (q *hsReq) offeredProtocols() map[string]bool {
	m := map[string]bool{}
	for _, l := range q.H["Sec-Websocket-Protocol"] {
		for _, e := range strings.Split(l, ",") {
			if t := strings.Trim(e, " \t"); t != "" {
				m[t] = true
			}
		}
	}
	return m
}

// deflateOffer: cValid = clearly offered (a well-formed line has an element
// named permessage-deflate), cInvalid = clearly not offered (every line is
// well-formed per the independent parser and none has such an element, in any
// case; a mention inside a quoted string is not an offer), else cUnclear.
func (q *hsReq) deflateOffer() int {
	lines := q.H["Sec-Websocket-Extensions"]
	allWell := true
	offered := false
	mentionedOtherCase := false
	for _, l := range lines {
		exts, ok := httpx.ParseExtensionList(l)
		if !ok {
			allWell = false
			continue
		}
		for _, e := range exts {
			if e.Name == "permessage-deflate" {
				offered = true
			} else if strings.EqualFold(e.Name, "permessage-deflate") {
				mentionedOtherCase = true
			}
		}
	}
	switch {
	case offered:
		return cValid
	case allWell && !mentionedOtherCase:
		return cInvalid
	}
	return cUnclear
}

// ---------------------------------------------------------------- execution

type hsOutcome struct {
	raw        []byte // response bytes on the wire (direct mode: what was written to the hijacked conn)
	status     int    // direct mode: ResponseWriter status (0 = none written)
	hdr        http.Header
	hijacks    int
	conn       *ws.Conn
	err        error
	usableErr  string
	nc         *xport.Conn
	byNetHTTP  bool
	serverSide bool
	espy       *errSpy // non-nil when Upgrader.Error was set
}

// direct runs Upgrade on a fake ResponseWriter/Hijacker.
func (q *hsReq) direct(u upCfg) *hsOutcome {
	req, _ := http.NewRequest(q.Method, "http://placeholder"+q.Target, nil)
	req.Method = q.Method
	req.Host = q.Host
	req.Header = http.Header{}
	for k, vs := range q.H {
		for _, v := range vs {
			req.Header[textproto.CanonicalMIMEHeaderKey(k)] = append(req.Header[textproto.CanonicalMIMEHeaderKey(k)], strings.Trim(v, " \t"))
		}
	}
	req = u.Deploy.applyReq(req, q.Host)
	nc := xport.New(nil)
	w := newFakeRW(nc, nil, 4096)
	u.Deploy.applyW(w)
	up, rh, espy := u.build()
	if u.WarmUp {
		// history: the application reuses its Upgrader and its responseHeader map; an
		// earlier client offered everything (permessage-deflate, subprotocols)
		wreq := validRequest(someKey)
		wreq.Header["Sec-Websocket-Extensions"] = []string{"permessage-deflate; client_max_window_bits"}
		wreq.Header["Sec-Websocket-Protocol"] = []string{"chat, superchat, x, v2.json"}
		wreq.Host = q.Host
		wc, _ := up.Upgrade(newFakeRW(xport.New(nil), nil, 4096), wreq, rh)
		if wc != nil {
			wc.Close()
		}
		if espy != nil {
			*espy = errSpy{}
		}
	}
	c, err := up.Upgrade(w, req, rh)
	o := &hsOutcome{raw: nc.Written(), status: w.status, hdr: w.hdr, hijacks: w.hijacks, conn: c, err: err, nc: nc, espy: espy}
	if c != nil {
		// usable afterwards?
		f := wire.Frame{Fin: true, Op: 1, Masked: true, Key: [4]byte{1, 2, 3, 4}, Payload: []byte("usable?")}
		nc.Feed(xport.Chunk{Data: wire.Append(nil, f)})
		_, p, e := c.ReadMessage()
		if e != nil || string(p) != "usable?" {
			o.usableErr = fmt.Sprintf("read after upgrade: %q %v", p, e)
		} else if e := c.WriteMessage(2, []byte("yes")); e != nil {
			o.usableErr = fmt.Sprintf("write after upgrade: %v", e)
		}
	}
	return o
}

// ---- real net/http server over an in-memory listener

type memListener struct {
	ch     chan net.Conn
	closed chan struct{}
}

func (l *memListener) Accept() (net.Conn, error) {
	select {
	case c := <-l.ch:
		return c, nil
	case <-l.closed:
		return nil, io.EOF
	}
}
func (l *memListener) Close() error   { return nil }
func (l *memListener) Addr() net.Addr { return &net.TCPAddr{IP: net.IPv4(127, 0, 0, 1), Port: 80} }

type srvResult struct {
	conn    bool
	err     error
	hijacks int
	espy    *errSpy
}

type srvCase struct {
	u   upCfg
	res chan srvResult
}

var (
	srvOnce  sync.Once
	srvLn    *memListener
	srvCases sync.Map
	srvSeq   uint64
	srvMu    sync.Mutex
)

type hijackSpy struct {
	http.ResponseWriter
	n int
}

func (h *hijackSpy) Hijack() (net.Conn, *bufio.ReadWriter, error) {
	h.n++
	return h.ResponseWriter.(http.Hijacker).Hijack()
}

func startSrv() {
	srvOnce.Do(func() {
		srvLn = &memListener{ch: make(chan net.Conn), closed: make(chan struct{})}
		srv := &http.Server{Handler: http.HandlerFunc(func(w http.ResponseWriter, r *http.Request) {
			id := r.Header.Get("X-Verif-Case")
			r.Header.Del("X-Verif-Case")
			v, ok := srvCases.Load(id)
			if !ok {
				http.Error(w, "no case", 599)
				return
			}
			cs := v.(*srvCase)
			spy := &hijackSpy{ResponseWriter: w}
			up, rh, espy := cs.u.build()
			cs.u.Deploy.applyW(spy)
			if cs.u.Deploy != nil && cs.u.Deploy.TLS {
				r.TLS = &tls.ConnectionState{HandshakeComplete: true, ServerName: r.Host, Version: tls.VersionTLS13}
			}
			c, err := up.Upgrade(spy, r, rh)
			cs.res <- srvResult{conn: c != nil, err: err, hijacks: spy.n, espy: espy}
			if c != nil {
				defer c.Close()
				c.SetReadDeadline(time.Now().Add(20 * time.Second))
				t, p, e := c.ReadMessage()
				if e == nil {
					c.WriteMessage(t, p)
				}
			}
		}), ReadHeaderTimeout: 30 * time.Second}
		go srv.Serve(srvLn)
	})
}

// real sends the request as bytes to a real net/http server.
func (q *hsReq) real(u upCfg, r *gen.R) (*hsOutcome, string) {
	startSrv()
	srvMu.Lock()
	srvSeq++
	id := fmt.Sprintf("%d", srvSeq)
	srvMu.Unlock()
	cs := &srvCase{u: u, res: make(chan srvResult, 1)}
	srvCases.Store(id, cs)
	defer srvCases.Delete(id)
	var b bytes.Buffer
	fmt.Fprintf(&b, "%s %s HTTP/1.1\r\nX-Verif-Case: %s\r\nHost: %s\r\n", q.Method, q.Target, id, q.Host)
	order := append([]string(nil), q.Order...)
	for _, k := range order {
		name := k
		switch r.Intn(3) {
		case 1:
			name = strings.ToLower(k)
		case 2:
			name = strings.ToUpper(k)
		}
		for _, v := range q.H[k] {
			fmt.Fprintf(&b, "%s:%s%s\r\n", name, []string{" ", "", "  ", "\t"}[r.Intn(4)], v)
		}
	}
	b.WriteString("\r\n")
	cli, srvc := net.Pipe()
	if u.Deploy != nil && u.Deploy.Unix {
		srvLn.ch <- unixConn{srvc}
	} else {
		srvLn.ch <- srvc
	}
	defer cli.Close()
	cli.SetDeadline(time.Now().Add(20 * time.Second))
	go cli.Write(b.Bytes())
	br := bufio.NewReader(cli)
	var raw bytes.Buffer
	for {
		line, err := br.ReadString('\n')
		raw.WriteString(line)
		if err != nil {
			return nil, "reading the response head: " + err.Error()
		}
		if line == "\r\n" || line == "\n" {
			break
		}
	}
	o := &hsOutcome{raw: raw.Bytes(), serverSide: true}
	select {
	case res := <-cs.res:
		o.err, o.hijacks, o.espy = res.err, res.hijacks, res.espy
		if res.conn {
			o.conn = &ws.Conn{} // marker: non-nil
		}
	case <-time.After(2 * time.Second):
		o.byNetHTTP = true // the handler never ran: net/http answered by itself
	}
	if bytes.HasPrefix(o.raw, []byte("HTTP/1.1 101")) && !o.byNetHTTP {
		f := wire.Frame{Fin: true, Op: 1, Masked: true, Key: [4]byte{9, 9, 9, 9}, Payload: []byte("usable?")}
		go cli.Write(wire.Append(nil, f))
		hdr := make([]byte, 2)
		if _, err := io.ReadFull(br, hdr); err != nil {
			o.usableErr = "no echo after upgrade: " + err.Error()
		} else {
			n := int(hdr[1] & 0x7f)
			p := make([]byte, n)
			io.ReadFull(br, p)
			if hdr[0]&0x40 != 0 {
				p, _ = wire.Inflate(p)
			}
			if hdr[0]&0x8f != 0x81 || hdr[1]&0x80 != 0 || string(p) != "usable?" {
				o.usableErr = fmt.Sprintf("echo after upgrade is %x %q", hdr, p)
			}
		}
	}
	return o, ""
}

// ---------------------------------------------------------------- the monitor

func init() {
	core.Register(&core.Prop{
		ID:    "C12",
		Level: "exploration",
		Rule: "case = (request drawn from the handshake grammar: method, Connection/Upgrade token lists with OWS/case/extra tokens/several lines/near misses, version values and lists, keys of every decoded length and with bad alphabet or padding, origin, subprotocol and extension offers) x (Upgrader settings, responseHeader map with hostile byte values); " +
			"an independent three-valued classifier says MUST_ACCEPT / MUST_REJECT / UNSPECIFIED; 3 of 4 cases call Upgrade directly on a Hijacker spy with the header normalisation net/http applies, 1 of 4 sends the bytes to a real net/http server over an in-memory listener; " +
			"distinct = hash of (request, settings, mode); non-trivial = classified MUST_ACCEPT or MUST_REJECT",
		Variants: core.PlainOnly,
		Cases: func(tier, variant string) int {
			if tier == "thorough" {
				return 800000
			}
			return 120000
		},
		Run:        runC12,
		Required:   []string{"must_accept_checked", "must_reject_checked", "real_server_cases", "response_lines_checked", "refusals_through_custom_error_func"},
		MaxWorkers: 16,
		Assumptions: []string{
			"UNSPECIFIED requests (empty list elements, version lists containing 13, non-canonical or duplicate keys, extension offers with quoting or other case, application-supplied Sec-WebSocket-Extensions) are executed but no outcome is demanded",
			"with Upgrader.Subprotocols nil the application-chosen Sec-WebSocket-Protocol response header is judged only for line injection and multiplicity",
		},
	})
}

func runC12(ctx *core.Ctx, out *core.Out) {
	r := ctx.R
	u := genUpCfg(r)
	q := genHsReq(r, u)
	realMode := ctx.Idx%4 == 3
	class, why, pure := q.overall3(u)
	desc := map[string]interface{}{"request": q, "upgrader": u, "class": []string{"MUST_ACCEPT", "MUST_REJECT", "UNSPECIFIED"}[class], "invalid_components": why, "mode": map[bool]string{true: "real net/http server", false: "direct"}[realMode]}
	out.Eval(core.J(desc), class != cUnclear)
	var o *hsOutcome
	if realMode {
		var msg string
		o, msg = q.real(u, r)
		out.Count("real_server_cases", 1)
		if o == nil {
			out.Inconcl("real-server exchange failed: " + msg)
			return
		}
		if o.byNetHTTP {
			out.Count("answered_by_net_http_itself", 1)
			return
		}
	} else {
		o = q.direct(u)
	}
	c12Judge(out, q, u, class, why, pure, o, desc)
	if ctx.Idx%2999 == 0 {
		desc["response"] = string(o.raw)
		out.Sample(desc)
	}
}

func c12Judge(out *core.Out, q *hsReq, u upCfg, class int, why []string, pure bool, o *hsOutcome, desc map[string]interface{}) {
	fail := func(sig, what string) {
		desc["response_bytes"] = fmt.Sprintf("%q", o.raw)
		if o.err != nil {
			desc["returned_error"] = o.err.Error()
		}
		out.Violate("C12:"+sig, what, desc)
	}
	upgraded := o.conn != nil
	switch class {
	case cUnclear:
		out.Count("unspecified_executed", 1)
		if upgraded {
			c12Check101(out, q, u, o, fail) // whatever is accepted must still get a correct 101
		}
		return
	case cInvalid:
		out.Count("must_reject_checked", 1)
		if upgraded || o.err == nil {
			fail("invalid-handshake-upgraded:"+strings.Join(why, "+"), fmt.Sprintf("Upgrade succeeded although the request is not a valid opening handshake (invalid: %v)", why))
			return
		}
		if o.hijacks != 0 {
			fail("hijacked-on-failure", fmt.Sprintf("the connection was hijacked %d times although the handshake was refused", o.hijacks))
			return
		}
		if _, ok := o.err.(ws.HandshakeError); !ok {
			fail("error-type", fmt.Sprintf("refusal returned %T (%v), not a HandshakeError", o.err, o.err))
			return
		}
		if o.espy != nil {
			out.Count("refusals_through_custom_error_func", 1)
			if o.espy.calls != 1 || o.espy.written {
				fail("custom-error-func-bypassed", fmt.Sprintf("Upgrader.Error is set; on refusal it was called %d times (response already started before the call: %v), expected exactly once with an untouched response", o.espy.calls, o.espy.written))
				return
			}
			if o.espy.reason == nil || o.espy.reason.Error() != o.err.Error() {
				fail("custom-error-func-reason", fmt.Sprintf("Upgrader.Error received reason %v, Upgrade returned %v", o.espy.reason, o.err))
				return
			}
		}
		status, hdr := o.status, o.hdr
		if o.serverSide {
			h, err := httpx.ParseResponse(o.raw)
			if err != nil {
				fail("error-response-malformed", "error response does not parse: "+err.Error())
				return
			}
			status = h.Status
			hdr = http.Header{}
			for _, f := range h.Fields {
				hdr.Add(f.Name, f.Value)
			}
		}
		if status < 400 {
			fail("error-status", fmt.Sprintf("refusal answered with HTTP status %d", status))
			return
		}
		if pure && len(why) == 1 && why[0] == "Origin" && status != 403 {
			fail("origin-status", fmt.Sprintf("origin is the only defect but the status is %d, not 403", status))
			return
		}
		if pure && len(why) == 1 && why[0] == "Upgrade" {
			if status != 426 || !httpx.ListHasToken(hdr.Values("Upgrade"), "websocket") {
				fail("upgrade-required-status", fmt.Sprintf("the Upgrade token is the only defect but the answer is %d with Upgrade header %q, expected 426 + Upgrade: websocket", status, hdr.Values("Upgrade")))
				return
			}
		}
	case cValid:
		out.Count("must_accept_checked", 1)
		if !upgraded {
			fail("valid-handshake-refused", fmt.Sprintf("Upgrade refused a valid opening handshake: %v (status %d)", o.err, o.status))
			return
		}
		if o.hijacks != 1 {
			fail("hijack-count", fmt.Sprintf("Hijack was called %d times on success", o.hijacks))
			return
		}
		if o.espy != nil && o.espy.calls != 0 {
			fail("custom-error-func-called-on-success", fmt.Sprintf("Upgrader.Error was called %d times (status %d) although Upgrade succeeded", o.espy.calls, o.espy.status))
			return
		}
		c12Check101(out, q, u, o, fail)
	}
}

func c12Check101(out *core.Out, q *hsReq, u upCfg, o *hsOutcome, fail func(string, string)) {
	h, err := httpx.ParseResponse(o.raw)
	if err != nil {
		sig := "response-malformed"
		if ap, ok := u.RespHdr["Sec-Websocket-Protocol"]; ok && u.SubNil && strings.ContainsAny(ap[0], "\r\n") {
			sig = "header-injection-via-application-subprotocol"
		}
		fail(sig, "the 101 response does not parse strictly: "+err.Error())
		return
	}
	out.Count("response_lines_checked", int64(h.Lines))
	if h.Status != 101 || h.Proto != "HTTP/1.1" {
		fail("response-status", fmt.Sprintf("success response is %s %d", h.Proto, h.Status))
		return
	}
	if !o.serverSide && len(o.raw) != h.Len {
		fail("bytes-after-response", fmt.Sprintf("%d bytes follow the response head", len(o.raw)-h.Len))
		return
	}
	if !httpx.ListHasToken(h.Get("Upgrade"), "websocket") || !httpx.ListHasToken(h.Get("Connection"), "upgrade") {
		fail("response-upgrade-headers", "Upgrade: websocket / Connection: Upgrade missing from the 101")
		return
	}
	key := ""
	if ks := q.H["Sec-Websocket-Key"]; len(ks) > 0 {
		key = strings.Trim(ks[0], " \t")
	}
	acc := h.Get("Sec-WebSocket-Accept")
	if len(acc) != 1 || acc[0] != acceptDigest(key) {
		fail("accept-digest", fmt.Sprintf("Sec-WebSocket-Accept is %q, the digest of key %q is %q", acc, key, acceptDigest(key)))
		return
	}
	protos := h.Get("Sec-WebSocket-Protocol")
	if len(protos) > 1 {
		fail("protocol-multiplicity", fmt.Sprintf("%d Sec-WebSocket-Protocol lines in the 101", len(protos)))
		return
	}
	appProto, hasApp := u.RespHdr["Sec-Websocket-Protocol"]
	if len(protos) == 1 && !u.SubNil {
		off := q.offeredProtocols()
		sup := false
		for _, s := range u.Subprotocols {
			if s == protos[0] {
				sup = true
			}
		}
		if !off[protos[0]] || !sup {
			fail("protocol-selection", fmt.Sprintf("selected subprotocol %q; offered %v, supported %v", protos[0], keys(off), u.Subprotocols))
			return
		}
	}
	ext := h.Get("Sec-WebSocket-Extensions")
	announced := false
	for _, e := range ext {
		if strings.Contains(e, "permessage-deflate") {
			announced = true
		}
	}
	if announced && (!u.Compress || q.deflateOffer() == cInvalid) {
		fail("deflate-announced", fmt.Sprintf("permessage-deflate announced although enabled=%v and the client's offer is %s", u.Compress, className[q.deflateOffer()]))
		return
	}
	// line accounting: every header line is either one of the protocol's own or is
	// accounted for by exactly one application-supplied value of that name
	protocolOwned := map[string]bool{"upgrade": true, "connection": true, "sec-websocket-accept": true, "sec-websocket-protocol": true, "sec-websocket-extensions": true, "date": true, "server": true, "sec-websocket-version": true}
	wantApp := map[string]int{}
	napp := 0
	for k, vs := range u.RespHdr {
		if k == "Sec-Websocket-Protocol" || k == "Sec-Websocket-Extensions" {
			continue
		}
		wantApp[strings.ToLower(k)] += len(vs)
		napp += len(vs)
	}
	gotApp := map[string]int{}
	for _, f := range h.Fields {
		n := strings.ToLower(f.Name)
		if _, isApp := wantApp[n]; isApp {
			gotApp[n]++
			continue
		}
		if !protocolOwned[n] {
			sig := "header-injection"
			if hasApp && u.SubNil && strings.ContainsAny(appProto[0], "\r\n") {
				sig = "header-injection-via-application-subprotocol"
			}
			fail(sig, fmt.Sprintf("the 101 carries a header line %q that is neither a protocol header nor one of the application-supplied names: an application value produced an extra line", f.Name))
			return
		}
	}
	for n, w := range wantApp {
		if gotApp[n] != w {
			sig := "header-injection"
			if gotApp[n] < w {
				sig = "application-header-lost"
			}
			fail(sig, fmt.Sprintf("the application supplied %d values for header %q but the 101 has %d lines with that name", w, n, gotApp[n]))
			return
		}
	}
	if hasApp && u.SubNil && len(protos) != 1 {
		fail("header-injection-via-application-subprotocol", fmt.Sprintf("the application chose one subprotocol but the 101 has %d Sec-WebSocket-Protocol lines", len(protos)))
		return
	}
	_ = napp
	for _, f := range h.Fields {
		if strings.EqualFold(f.Name, "X-Injected") {
			fail("header-injection", "an injected header line X-Injected is present in the 101")
			return
		}
	}
	if o.usableErr != "" {
		fail("connection-unusable", "connection not usable after a successful upgrade: "+o.usableErr)
	}
}

func keys(m map[string]bool) []string {
	var s []string
	for k := range m {
		s = append(s, k)
	}
	sort.Strings(s)
	return s
}
