package props

import (
	"errors"
	"fmt"
	"strings"
	"time"

	ws "github.com/gorilla/websocket"

	"verif/internal/core"
	"verif/internal/gen"
	"verif/internal/wire"
	"verif/internal/xport"
)

const (
	cpWriteControl = iota
	cpWriteMessage
	cpNextWriter
	cpPrepared
	cpCloseHandler
	cpProtocolError
	cpReadLimit
	nClosePaths
)

var closePathNames = []string{"WriteControl", "WriteMessage(Close)", "NextWriter(Close)+Close", "PreparedMessage(Close)", "default close handler", "protocol error (1002)", "read limit breach (1009)"}

func init() {
	core.Register(&core.Prop{
		ID:    "C09",
		Level: "exploration",
		Rule: "sequential family: per generated write program, a close is sent at EVERY step boundary and between the parts of every open writer x 7 close paths (WriteControl, WriteMessage, NextWriter, prepared message, default close handler, protocol error, read-limit breach), then every write API is called; " +
			"concurrent family: the close frame is held inside the transport's Write by a gate while a writer goroutine, WriteControl callers and reader-triggered closes issue calls, and the recorded call/return history is checked against a sequential model with porcupine; " +
			"distinct = (program hash, position, path) resp. (scenario, interleaving signature); non-trivial = the close lands while a message is open or other calls are in flight",
		Variants: core.PlainOnly,
		Cases: func(tier, variant string) int {
			if tier == "thorough" {
				return 30000 + 30000
			}
			return c09SeqQuick + 600
		},
		Run:          runC09,
		BeatTimeoutS: 150,
		Required:     []string{"pings_during_a_stalled_close", "closes_sent", "calls_after_close_checked", "close_inside_open_message", "concurrent_runs", "histories_linearizable", "close_sequences_after_a_failed_write"},
		Assumptions: []string{
			"every close position of each generated program x every close path is enumerated; programs are sampled",
			"schedules of the concurrent family are sampled (gate-forced windows + free-running goroutines), not enumerated",
		},
		CaseTimeoutS: 300,
	})
}

const c09SeqQuick = 500

func c09SeqCases(tier string) int {
	if tier == "thorough" {
		return 30000
	}
	return c09SeqQuick
}

func runC09(ctx *core.Ctx, out *core.Out) {
	if ctx.Idx >= c09SeqCases(ctx.Tier) {
		runC09Concurrent(ctx, out)
		return
	}
	r := ctx.R
	cfg := genCfg(r)
	max := 2000
	if r.Chance(1, 8) {
		max = 70000
	}
	if cfg.WB < 64 {
		max = 400
	}
	prog := genProgram(r, cfg, ProgOpts{MaxMsgs: 4, MaxSize: max})
	desc := rtCase{Cfg: cfg, Prog: progDesc(prog)}
	ph := core.Hash(core.J(desc))

	// count hook positions with a dry run
	positions := 0
	{
		nc := xport.New(nil)
		w := NewWriter(newConn(nc, cfg, &TrackPool{}, 0), cfg)
		w.AfterOp = func(int, string) { positions++ }
		w.RunProgram(prog)
	}
	for pos := 0; pos <= positions; pos++ {
		for path := 0; path < nClosePaths; path++ {
			if !c09One(ctx, out, cfg, prog, desc, ph, pos, path) {
				return
			}
		}
	}
	for _, path := range []int{cpWriteControl, cpCloseHandler, cpProtocolError, cpReadLimit} {
		if !c09JSONMid(ctx, out, cfg, path) {
			return
		}
	}
	if !c09AfterFailedWrite(ctx, out, cfg, prog, desc) {
		return
	}
	if ctx.Idx%50 == 0 {
		out.Sample(map[string]interface{}{"case": desc, "close_positions": positions + 1, "close_paths": closePathNames})
	}
}

// c09AfterFailedWrite: history "an earlier transport write failed" (the transport works
// again afterwards), then closes through several paths one after the other. Whether any
// close frame can still be written is C10's business; C09's invariant is checked on the
// wire as it stands: if a close frame is there, it is the last thing written.
func c09AfterFailedWrite(ctx *core.Ctx, out *core.Out, cfg Cfg, prog []WStep, desc rtCase) bool {
	r := gen.For(ctx.Seed, "c09/afterfault", ctx.Idx)
	nc := xport.New(nil)
	nc.EndErr = xport.ErrClosed
	nc.Counted = func(k xport.OpKind) bool { return k == xport.OpWrite }
	nc.FaultAt = map[int]xport.FaultKind{r.Intn(4): []xport.FaultKind{xport.FaultErr, xport.FaultTimeout}[r.Intn(2)]}
	c := newConn(nc, cfg, &TrackPool{}, 0)
	w := NewWriter(c, cfg)
	w.RunProgram(prog)
	if nc.FaultsHit == 0 {
		return true
	}
	peer := func(f wire.Frame) {
		f.Masked = cfg.Server
		f.Key = [4]byte{1, 2, 3, 4}
		nc.Feed(xport.Chunk{Data: wire.Append(nil, f)})
	}
	order := []int{0, 1, 2, 3}
	for i := 3; i > 0; i-- {
		j := r.Intn(i + 1)
		order[i], order[j] = order[j], order[i]
	}
	for _, k := range order {
		switch k {
		case 0:
			c.WriteControl(ws.CloseMessage, ws.FormatCloseMessage(1000, "first"), time.Time{})
		case 1:
			c.WriteMessage(ws.CloseMessage, ws.FormatCloseMessage(1001, "second"))
		case 2:
			peer(wire.Frame{Fin: true, Op: 8, Payload: wire.MkClose(4000, "peer")})
			c.NextReader()
		default:
			if pm, err := ws.NewPreparedMessage(ws.CloseMessage, ws.FormatCloseMessage(1000, "prepared")); err == nil {
				c.WritePreparedMessage(pm)
			}
		}
	}
	c.WriteMessage(1, []byte("after"))
	out.Count("close_sequences_after_a_failed_write", 1)
	frames, rest, _ := wire.Decode(nc.Written())
	for i, f := range frames {
		if f.Op == 8 && (i+1 < len(frames) || len(rest) > 0) {
			out.Violate("C09:bytes-after-close", fmt.Sprintf("after an earlier failed transport write: a close frame (frame %d of %d) is followed by more bytes on the transport", i, len(frames)), map[string]interface{}{"case": desc, "frames": framesDesc(frames, 16), "close_order": order})
			return false
		}
	}
	return true
}

// hookMarshaler runs fn while WriteJSON is between its NextWriter and its Close.
type hookMarshaler struct{ fn func() }

func (h hookMarshaler) MarshalJSON() ([]byte, error) {
	h.fn()
	return []byte(`{"sent":"while the message was open"}`), nil
}

// c09JSONMid: a close is sent (by another path) while WriteJSON has its message
// open. The JSON message can no longer be sent, so WriteJSON must not return nil,
// and nothing may follow the close frame.
func c09JSONMid(ctx *core.Ctx, out *core.Out, cfg Cfg, path int) bool {
	nc := xport.New(nil)
	nc.EndErr = xport.ErrClosed
	c := newConn(nc, cfg, &TrackPool{}, 0)
	if path == cpReadLimit {
		c.SetReadLimit(5)
	}
	peer := func(f wire.Frame) {
		f.Masked = cfg.Server
		f.Key = [4]byte{1, 2, 3, 4}
		nc.Feed(xport.Chunk{Data: wire.Append(nil, f)})
	}
	closeOK := true
	err := c.WriteJSON(hookMarshaler{func() {
		switch path {
		case cpWriteControl:
			closeOK = c.WriteControl(ws.CloseMessage, ws.FormatCloseMessage(1000, "mid"), time.Time{}) == nil
		case cpCloseHandler:
			peer(wire.Frame{Fin: true, Op: 8, Payload: wire.MkClose(4321, "peer")})
			c.ReadMessage()
		case cpProtocolError:
			peer(wire.Frame{Fin: true, Rsv2: true, Op: 1, Payload: []byte("bad")})
			c.ReadMessage()
		case cpReadLimit:
			peer(wire.Frame{Fin: true, Op: 2, Payload: []byte("0123456789")})
			c.ReadMessage()
		}
	}})
	out.Eval(fmt.Sprintf("jsonmid|%s|%d", cfg, path), true)
	out.Count("closes_sent", 1)
	out.Count("close_inside_open_message", 1)
	d := map[string]interface{}{"cfg": cfg, "close_path": closePathNames[path], "scenario": "close sent while WriteJSON has its message open"}
	if !closeOK {
		out.Violate("C09:close-not-sent", "WriteControl(close) failed on a healthy connection", d)
		return false
	}
	out.Count("calls_after_close_checked", 1)
	if err == nil {
		out.Violate("C09:writer-close-after-close:WriteJSON", "WriteJSON returned nil although a close frame was sent while its message was open: the message is reported as sent", d)
		return false
	}
	frames, rest, derr := wire.Decode(nc.Written())
	if derr != nil || len(rest) > 0 || len(frames) == 0 || frames[len(frames)-1].Op != 8 {
		out.Violate("C09:bytes-after-close", "the write log does not end with the close frame", map[string]interface{}{"cfg": cfg, "frames": framesDesc(frames, 8)})
		return false
	}
	return true
}

func c09One(ctx *core.Ctx, out *core.Out, cfg Cfg, prog []WStep, desc rtCase, ph uint64, pos, path int) bool {
	nc := xport.New(nil)
	nc.EndErr = xport.ErrClosed
	c := newConn(nc, cfg, &TrackPool{}, 0)
	if path == cpReadLimit {
		c.SetReadLimit(5)
	}
	w := NewWriter(c, cfg)
	w.NC = nc
	var closeCallEnd = -1 // index in w.Calls after which everything is "after the close"
	var closeErr error
	wantCode := 1000
	openAtClose := false
	lazyClose := false
	hook := 0
	peer := func(f wire.Frame) {
		f.Masked = cfg.Server
		f.Key = [4]byte{1, 2, 3, 4}
		nc.Feed(xport.Chunk{Data: wire.Append(nil, f)})
	}
	sendClose := func() {
		openAtClose = w.HasOpen() || w.pendingOpen
		body := ws.FormatCloseMessage(1000, strings.Repeat("x", []int{1, 40, 123}[(pos+path)%3]))
		switch path {
		case cpWriteControl:
			closeErr = c.WriteControl(ws.CloseMessage, body, time.Time{})
		case cpWriteMessage:
			w.implicitClosed()
			closeErr = c.WriteMessage(ws.CloseMessage, body)
		case cpNextWriter:
			w.implicitClosed()
			wr, err := c.NextWriter(ws.CloseMessage)
			if err == nil {
				_, err = wr.Write(body)
				if err == nil {
					if (pos+len(prog))%2 == 0 && !w.pendingOpen {
						// the close message's writer is left open: the close frame goes out
						// with the next message-level call (implicit close) or at the end
						lazyClose = true
						w.Sent = append(w.Sent, Sent{Type: 8, Data: body, Step: -1})
						w.open, w.openIdx = wr, len(w.Sent)-1
					} else {
						err = wr.Close()
					}
				}
			}
			closeErr = err
		case cpPrepared:
			if w.HasOpen() || w.pendingOpen {
				// out of contract with an open writer; fall back to WriteControl
				closeErr = c.WriteControl(ws.CloseMessage, body, time.Time{})
				break
			}
			pm, err := ws.NewPreparedMessage(ws.CloseMessage, body)
			if err == nil {
				err = c.WritePreparedMessage(pm)
			}
			closeErr = err
		case cpCloseHandler:
			wantCode = 4321
			peer(wire.Frame{Fin: true, Op: 8, Payload: wire.MkClose(4321, "peer")})
			_, _, err := c.ReadMessage()
			if !isCloseErr(err, 4321, "peer") {
				closeErr = fmt.Errorf("read returned %v", err)
			}
		case cpProtocolError:
			wantCode = 1002
			peer(wire.Frame{Fin: true, Rsv2: true, Op: 1, Payload: []byte("bad")})
			_, _, err := c.ReadMessage()
			if err == nil {
				closeErr = fmt.Errorf("read of an RSV2 frame returned nil")
			}
		case cpReadLimit:
			wantCode = 1009
			peer(wire.Frame{Fin: true, Op: 2, Payload: []byte("0123456789")})
			_, _, err := c.ReadMessage()
			if err == nil {
				closeErr = fmt.Errorf("read beyond the limit returned nil")
			}
		}
		closeCallEnd = len(w.Calls)
	}
	w.AfterOp = func(step int, what string) {
		hook++
		if hook == pos {
			w.pendingOpen = what == "part"
			sendClose()
			w.pendingOpen = false
		}
	}
	if pos == 0 {
		sendClose()
	}
	w.RunProgram(prog)
	// afterwards: every write API once, with valid arguments
	tail := []WStep{
		{Kind: WMsg, Type: 1, payload: []byte("after-close-1")},
		{Kind: WNext, Type: 2, payload: []byte("after-close-2"), Parts: []Part{{How: PartWrite, N: 13}}, Explicit: true},
		{Kind: WControl, Type: 9, payload: []byte("after-close-3")},
		{Kind: WControl, Type: 10, payload: []byte("after-close-3b"), DL: 7},
		{Kind: WJSON, jsonVal: "after-close-4", payload: []byte("\"after-close-4\"\n")},
		{Kind: WPrepared, Type: 2, payload: []byte("after-close-5")},
		{Kind: WMsg, Type: 8, payload: wire.MkClose(1001, "again")},
		{Kind: WControl, Type: 8, payload: wire.MkClose(1001, "again")},
	}
	for i, s := range tail {
		w.Do(len(prog)+1+i, s)
	}
	out.EvalH(ph^uint64(pos)<<16^uint64(path)<<8, openAtClose)
	out.Count("closes_sent", 1)
	if openAtClose {
		out.Count("close_inside_open_message", 1)
	}
	fail := func(sig, what string, extra map[string]interface{}) bool {
		d := map[string]interface{}{"case": desc, "close_position": pos, "close_path": closePathNames[path]}
		for k, v := range extra {
			d[k] = v
		}
		out.Violate("C09:"+sig, what, d)
		return false
	}
	if closeErr != nil {
		return fail("close-not-sent", fmt.Sprintf("sending the close through %s failed on a healthy connection: %v", closePathNames[path], closeErr), nil)
	}
	// the write log: nothing after the first close frame
	written := nc.Written()
	frames, rest, derr := wire.Decode(written)
	if derr != nil {
		return fail("write-log-undecodable", fmt.Sprintf("write log does not decode: %v", derr), nil)
	}
	ci := -1
	for i, f := range frames {
		if f.Op == 8 {
			ci = i
			break
		}
	}
	if ci < 0 {
		return fail("close-frame-missing", "no close frame in the write log although the close call succeeded", map[string]interface{}{"frames": framesDesc(frames, 12)})
	}
	if code, _, _ := wire.CloseBody(frames[ci].Payload); code != wantCode {
		return fail("close-status", fmt.Sprintf("close frame carries status %d, expected %d", code, wantCode), nil)
	}
	if ci != len(frames)-1 || len(rest) > 0 {
		after := len(written) - (frames[ci].Off + frames[ci].Size)
		return fail("bytes-after-close", fmt.Sprintf("%d bytes (%d frames) were written to the transport after the close frame", after, len(frames)-1-ci), map[string]interface{}{"frames_after_close": framesDesc(frames[ci+1:], 8), "frames": framesDesc(frames, 20)})
	}
	if _, _, v := wire.Validate(frames, !cfg.Server, cfg.Comp); v != nil {
		return fail("ill-formed-before-close", v.Error(), map[string]interface{}{"frames": framesDesc(frames, 20)})
	}
	// API results after the close
	if lazyClose {
		// the close frame reached the wire during one of the recorded calls: that call,
		// if it begins a message of its own, and every later call must fail
		end := frames[ci].Off + frames[ci].Size
		closeCallEnd = len(w.Calls)
		for i, cl := range w.Calls {
			if cl.BytesBefore < end && cl.BytesAfter >= end {
				closeCallEnd = i
				if cl.Name == "Close" {
					closeCallEnd = i + 1 // the explicit Close of the close message's own writer
				}
				break
			}
		}
		out.Count("close_flushed_by_a_later_call", 1)
	}
	for i, cl := range w.Calls {
		if i < closeCallEnd {
			continue
		}
		switch cl.Name {
		case "WriteMessage", "NextWriter", "WriteControl", "WriteJSON", "WritePreparedMessage":
			out.Count("calls_after_close_checked", 1)
			if !errors.Is(cl.Err, ws.ErrCloseSent) {
				return fail("call-after-close:"+cl.Name, fmt.Sprintf("%s at step %d, started after the close had been sent, returned %v instead of ErrCloseSent", cl.Name, cl.Step, cl.Err), nil)
			}
		case "Close":
			out.Count("calls_after_close_checked", 1)
			if cl.Err == nil {
				return fail("writer-close-after-close", fmt.Sprintf("Close of a message writer (step %d) returned nil after the close frame had been sent: the message is reported as sent", cl.Step), nil)
			}
		}
	}
	// a second close, through each path that takes one, is a write request like any other
	before := nc.WrittenLen()
	again := []struct {
		name string
		err  error
	}{
		{"WriteControl(Close)", c.WriteControl(ws.CloseMessage, ws.FormatCloseMessage(1000, "again"), time.Time{})},
		{"WriteControl(Close, deadline)", c.WriteControl(ws.CloseMessage, nil, time.Now().Add(time.Second))},
		{"WriteMessage(Close)", c.WriteMessage(ws.CloseMessage, ws.FormatCloseMessage(1001, "again"))},
	}
	for _, a := range again {
		out.Count("calls_after_close_checked", 1)
		if !errors.Is(a.err, ws.ErrCloseSent) {
			return fail("call-after-close:second-close", fmt.Sprintf("%s after the close had been sent returned %v instead of ErrCloseSent", a.name, a.err), nil)
		}
	}
	if nc.WrittenLen() != before {
		return fail("bytes-after-close", fmt.Sprintf("%d bytes were written by a second close", nc.WrittenLen()-before), nil)
	}
	return true
}
