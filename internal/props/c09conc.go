package props

import (
	"errors"
	"fmt"
	"sync"
	"sync/atomic"
	"time"

	"github.com/anishathalye/porcupine"
	ws "github.com/gorilla/websocket"

	"verif/internal/core"
	"verif/internal/gen"
	"verif/internal/wire"
	"verif/internal/xport"
)

type c09cCase struct {
	Cfg    Cfg   `json:"cfg"`
	Path   int   `json:"close_path"`
	NCtl   int   `json:"writecontrol_callers"`
	NMsgs  int   `json:"writer_messages"`
	At     int   `json:"close_after_writer_ops"`
	HoldUs int   `json:"gate_hold_us"`
	Procs  int   `json:"gomaxprocs_hint"`
	Seed   int64 `json:"-"`
}

// runC09Concurrent: the close frame is held inside the transport while other
// goroutines keep calling the write API.
func runC09Concurrent(ctx *core.Ctx, out *core.Out) {
	if ctx.Idx%40 == 13 {
		c09PingDuringStalledClose(ctx, out)
		return
	}
	r := ctx.R
	cs := c09cCase{Cfg: genCfg(r), Path: r.Intn(nClosePaths), NCtl: r.Range(0, 4), NMsgs: r.Range(2, 10), HoldUs: r.Range(200, 8000)}
	cs.At = r.Intn(cs.NMsgs + 1)
	if cs.Cfg.WB < 64 {
		cs.Cfg.WB = 64
	}
	a, b := xport.NewPipe()
	var clock int64
	ep := &endpoint{tag: 1, nc: a, cfg: cs.Cfg, clock: &clock}
	pool := &TrackPool{}
	if cs.Cfg.Pool {
		pool.PutDelay = func() { time.Sleep(400 * time.Microsecond) }
	}
	ep.c = newConn(a, cs.Cfg, pool, 0)
	if cs.Path == cpReadLimit {
		ep.c.SetReadLimit(5)
	}
	a.GateIf = closeFrameDetector(!cs.Cfg.Server)
	gate := make(chan struct{})
	a.Gate = gate
	a.Gated = make(chan struct{}, 1)
	var released int32
	release := func() {
		if atomic.CompareAndSwapInt32(&released, 0, 1) {
			close(gate)
		}
	}
	defer release()

	var closeRet int64 // logical time at which the close-sending call returned
	var handlerCall, handlerRet int64
	dc := ep.c.CloseHandler()
	ep.c.SetCloseHandler(func(code int, text string) error {
		atomic.StoreInt64(&handlerCall, ep.tick())
		err := dc(code, text)
		atomic.StoreInt64(&handlerRet, ep.tick())
		return err
	})

	var wgR, wgW sync.WaitGroup
	var rdDone int64
	wgR.Add(1)
	go func() {
		defer wgR.Done()
		for {
			if _, _, err := ep.c.ReadMessage(); err != nil {
				atomic.StoreInt64(&rdDone, ep.tick())
				return
			}
		}
	}()
	drainRaw(b, &wgR)

	var stop int32
	var sent []Sent
	peerMasked := cs.Cfg.Server
	inject := func(f wire.Frame) int64 {
		f.Masked = peerMasked
		f.Key = [4]byte{5, 6, 7, 8}
		t := ep.tick()
		b.Write(wire.Append(nil, f))
		return t
	}
	var injectT int64
	doClose := func(r *gen.R) {
		switch cs.Path {
		case cpWriteControl, cpWriteMessage, cpNextWriter, cpPrepared:
			id := ep.newID(okClose)
			body := idCloseBody(id)
			var res int
			switch cs.Path {
			case cpWriteControl:
				res, _ = ep.record(50, opIn{okClose, id}, func() error { return ep.c.WriteControl(ws.CloseMessage, body, time.Time{}) })
			case cpWriteMessage:
				res, _ = ep.record(1, opIn{okClose, id}, func() error { return ep.c.WriteMessage(ws.CloseMessage, body) })
			case cpNextWriter:
				res, _ = ep.record(1, opIn{okClose, id}, func() error {
					w, err := ep.c.NextWriter(ws.CloseMessage)
					if err != nil {
						return err
					}
					if _, err := w.Write(body); err != nil {
						return err
					}
					return w.Close()
				})
			case cpPrepared:
				pm, _ := ws.NewPreparedMessage(ws.CloseMessage, body)
				res, _ = ep.record(1, opIn{okClose, id}, func() error { return ep.c.WritePreparedMessage(pm) })
			}
			if res == resOK {
				atomic.StoreInt64(&closeRet, ep.tick())
			}
		case cpCloseHandler:
			atomic.StoreInt64(&injectT, inject(wire.Frame{Fin: true, Op: 8, Payload: wire.MkClose(4321, "peer")}))
		case cpProtocolError:
			atomic.StoreInt64(&injectT, inject(wire.Frame{Fin: true, Rsv3: true, Op: 2, Payload: []byte("bad")}))
		case cpReadLimit:
			atomic.StoreInt64(&injectT, inject(wire.Frame{Fin: true, Op: 2, Payload: []byte("0123456789")}))
		}
	}

	// writer goroutine: messages, with the close at position At when it travels
	// through a message-level path
	wgW.Add(1)
	go func() {
		defer wgW.Done()
		rr := gen.For(ctx.Seed, "c09c/writer", ctx.Idx)
		viaWriter := cs.Path == cpWriteMessage || cs.Path == cpNextWriter || cs.Path == cpPrepared
		ep.writerLoop(1, cs.At, rr, 3000, &sent, &stop)
		if viaWriter {
			doClose(rr)
		}
		ep.writerLoop(1, cs.NMsgs-cs.At, rr, 3000, &sent, &stop)
	}()
	if !(cs.Path == cpWriteMessage || cs.Path == cpNextWriter || cs.Path == cpPrepared) {
		wgW.Add(1)
		go func() {
			defer wgW.Done()
			rr := gen.For(ctx.Seed, "c09c/closer", ctx.Idx)
			time.Sleep(time.Duration(rr.Intn(1500)) * time.Microsecond)
			doClose(rr)
		}()
	}
	for k := 0; k < cs.NCtl; k++ {
		wgW.Add(1)
		go func(k int) {
			defer wgW.Done()
			rr := gen.For(ctx.Seed, fmt.Sprintf("c09c/ctl%d", k), ctx.Idx)
			short := k%2 == 0
			ep.ctlLoop(10+k, rr.Range(2, 8), rr, func() time.Time {
				if short {
					return time.Now().Add(time.Duration(rr.Range(1, 5)) * time.Millisecond)
				}
				return time.Time{}
			}, &stop)
		}(k)
	}

	// hold the close frame for a while, then let it through
	gatedSeen := false
	select {
	case <-a.Gated:
		gatedSeen = true
		time.Sleep(time.Duration(cs.HoldUs) * time.Microsecond)
	case <-time.After(10 * time.Second):
	}
	release()
	done := make(chan struct{})
	go func() { wgW.Wait(); close(done) }()
	select {
	case <-done:
	case <-time.After(45 * time.Second):
		out.Violate("C09:hang-after-close", "write-side goroutines did not finish 45 s after the close frame was released", map[string]interface{}{"case": cs})
		a.Close()
		b.Close()
		return
	}
	// a reader-triggered close is sent by the reader goroutine: wait until it is through
	if cs.Path >= cpCloseHandler {
		for limit := time.Now().Add(20 * time.Second); time.Now().Before(limit) && atomic.LoadInt64(&rdDone) == 0; {
			time.Sleep(time.Millisecond)
		}
		if atomic.LoadInt64(&rdDone) == 0 {
			out.Inconcl("the reader had not finished sending its close 20 s after the gate was released")
			out.Eval(core.J(cs), false)
			a.Close()
			b.Close()
			return
		}
	}
	// calls that start now are strictly after the close
	postT := ep.tick()
	type post struct {
		name string
		err  error
	}
	var posts []post
	posts = append(posts, post{"WriteMessage", ep.c.WriteMessage(1, []byte("post-1"))})
	_, e2 := ep.c.NextWriter(2)
	posts = append(posts, post{"NextWriter", e2})
	posts = append(posts, post{"WriteControl", ep.c.WriteControl(9, []byte("post-3"), time.Time{})})
	posts = append(posts, post{"WriteJSON", ep.c.WriteJSON("post-4")})
	pm, _ := ws.NewPreparedMessage(1, []byte("post-5"))
	posts = append(posts, post{"WritePreparedMessage", ep.c.WritePreparedMessage(pm)})
	a.Close()
	b.Close()
	wgR.Wait()
	_ = postT

	out.Count("concurrent_runs", 1)
	fail := func(sig, what string, extra map[string]interface{}) {
		d := map[string]interface{}{"case": cs, "close_path": closePathNames[cs.Path]}
		for k, v := range extra {
			d[k] = v
		}
		out.Violate("C09:"+sig, what, d)
	}
	if !gatedSeen {
		out.Inconcl("the close frame never reached the transport within 20 s")
		out.Eval(core.J(cs), false)
		return
	}
	// ---- the write log
	seq, frames, _, tail, oerr := ep.observe()
	if oerr != nil {
		fail("ill-formed-stream", "write log is not a well-formed frame sequence: "+oerr.Error(), map[string]interface{}{"frames": framesDesc(frames, 20)})
		return
	}
	ci := -1
	for i, f := range frames {
		if f.Op == 8 {
			ci = i
			break
		}
	}
	if ci < 0 {
		fail("close-frame-missing", "the held close frame is not in the write log", nil)
		return
	}
	if ci != len(frames)-1 || tail > 0 {
		fail("bytes-after-close", fmt.Sprintf("%d frames and %d loose bytes follow the close frame in the write log", len(frames)-1-ci, tail), map[string]interface{}{"frames_after_close": framesDesc(frames[ci+1:], 8), "frames": framesDesc(frames, 24)})
		return
	}
	out.Count("closes_sent", 1)
	// ---- reader-triggered close as an operation of the history
	code, _, _ := wire.CloseBody(frames[ci].Payload)
	if cs.Path >= cpCloseHandler {
		want := map[int]int{cpCloseHandler: 4321, cpProtocolError: 1002, cpReadLimit: 1009}[cs.Path]
		if code != want {
			fail("close-status", fmt.Sprintf("close frame carries %d, expected %d", code, want), nil)
			return
		}
		call := atomic.LoadInt64(&injectT)
		ret := atomic.LoadInt64(&handlerRet)
		if cs.Path != cpCloseHandler || ret == 0 {
			ret = atomic.LoadInt64(&rdDone)
		}
		if ret <= call {
			ret = ep.tick()
		}
		ep.mu.Lock()
		ep.hist = append(ep.hist, porcupine.Operation{ClientId: 60, Input: opIn{okClose, ep.libCloseID(code)}, Call: call, Output: opOut{Res: resOK}, Return: ret})
		ep.mu.Unlock()
		atomic.StoreInt64(&closeRet, ret)
	}
	// ---- calls started after the close-sending call returned
	cr := atomic.LoadInt64(&closeRet)
	ep.mu.Lock()
	hist := append([]porcupine.Operation(nil), ep.hist...)
	ep.mu.Unlock()
	overlapData, overlapCtl, timeouts, after := 0, 0, 0, 0
	var closeOp *porcupine.Operation
	for i := range hist {
		if hist[i].Input.(opIn).Kind == okClose && hist[i].Output.(opOut).Res == resOK {
			closeOp = &hist[i]
		}
	}
	for _, op := range hist {
		in, o := op.Input.(opIn), op.Output.(opOut)
		if closeOp != nil && in.Kind != okClose && op.Call < closeOp.Return && op.Return > closeOp.Call {
			if in.Kind == okData {
				overlapData++
			} else {
				overlapCtl++
			}
		}
		if o.Res == resTimeout {
			timeouts++
		}
		if cr > 0 && op.Call > cr && in.Kind != okObserve {
			after++
			out.Count("calls_after_close_checked", 1)
			if o.Res != resCloseSent && o.Res != resTimeout {
				fail("call-after-close", fmt.Sprintf("%s started at t=%d, after the close-sending call had returned at t=%d, and returned %s (%s)", writeModel.DescribeOperation(in, o), op.Call, cr, resName(o.Res), o.Err), nil)
				return
			}
		}
	}
	for _, p := range posts {
		out.Count("calls_after_close_checked", 1)
		if !errors.Is(p.err, ws.ErrCloseSent) {
			fail("call-after-close:"+p.name, fmt.Sprintf("%s called after all activity had ended returned %v instead of ErrCloseSent", p.name, p.err), nil)
			return
		}
	}
	// ---- linearizability of the call/return history
	res, witness := ep.checkHistory(seq)
	switch res {
	case porcupine.Ok:
		out.Count("histories_linearizable", 1)
	case porcupine.Illegal:
		fail("history-not-linearizable", "no linearization of the recorded call/return history explains what is on the wire", map[string]interface{}{"history": witness, "wire_ids": fmt.Sprintf("%x", seq)})
		return
	default:
		out.Inconcl("porcupine timed out: " + witness)
	}
	sig := fmt.Sprintf("path=%d overlapData=%d overlapCtl=%d timeouts=%d after=%d", cs.Path, overlapData, overlapCtl, min3(timeouts, 3), min3(after, 3))
	out.Eval("c09c|"+sig, overlapData+overlapCtl > 0)
	out.Count("ops_overlapping_the_held_close", int64(overlapData+overlapCtl))
	if overlapData > 0 {
		out.Count("close_inside_open_message", 1)
	}
	if ctx.Idx%97 == 0 {
		out.Sample(map[string]interface{}{"concurrent_case": cs, "interleaving": sig, "history_ops": len(hist), "wire_ids": fmt.Sprintf("%x", seq)})
	}
}

func min3(a, b int) int {
	if a < b {
		return a
	}
	return b
}

// closeFrameDetector returns a GateIf predicate that follows the frame
// boundaries of the written stream (a frame may reach the transport in two
// Write calls, header+buffered bytes and then the rest of the payload) and
// selects exactly the Write that starts a close frame.
func closeFrameDetector(masked bool) func(p []byte) bool {
	remaining := 0
	return func(p []byte) bool {
		if remaining > 0 {
			if len(p) >= remaining {
				remaining = 0
			} else {
				remaining -= len(p)
			}
			return false
		}
		if len(p) < 2 {
			return false
		}
		hdr := 2
		n := int(p[1] & 0x7f)
		switch n {
		case 126:
			if len(p) < 4 {
				return false
			}
			n = int(p[2])<<8 | int(p[3])
			hdr = 4
		case 127:
			if len(p) < 10 {
				return false
			}
			n = 0
			for i := 2; i < 10; i++ {
				n = n<<8 | int(p[i])
			}
			hdr = 10
		}
		if masked {
			hdr += 4
		}
		total := hdr + n
		if len(p) < total {
			remaining = total - len(p)
		}
		return p[0]&0x0f == 8
	}
}

// c09PingDuringStalledClose: the close frame is held inside the transport's Write for longer
// than the default ping handler is prepared to wait for the connection (one second), while a
// ping and a data message arrive. The handler gives up, the reader goes on; when the transport
// finally accepts the close frame, that frame must be the last thing ever written - a reply
// that could not be sent in time must not be sent late.
func c09PingDuringStalledClose(ctx *core.Ctx, out *core.Out) {
	r := ctx.R
	cfg := Cfg{Server: r.Bool(), RB: 256, WB: []int{128, 512, 4096}[r.Intn(3)]}
	path := []int{cpWriteControl, cpWriteMessage, cpNextWriter, cpPrepared}[r.Intn(4)]
	a, b := xport.NewPipe()
	c := newConn(a, cfg, nil, 0)
	a.GateIf = closeFrameDetector(!cfg.Server)
	gate := make(chan struct{})
	a.Gate = gate
	a.Gated = make(chan struct{}, 1)
	released := false
	release := func() {
		if !released {
			released = true
			close(gate)
		}
	}
	defer func() { release(); a.Close(); b.Close() }()
	desc := map[string]interface{}{"cfg": cfg, "close_path": closePathNames[path]}
	out.Eval(fmt.Sprintf("ping-during-stalled-close|%v|%d", cfg, path), true)

	got := make(chan string, 16)
	go func() {
		defer close(got)
		for {
			_, p, err := c.ReadMessage()
			if err != nil {
				return
			}
			got <- string(p)
		}
	}()
	body := ws.FormatCloseMessage(1000, "bye")
	closed := make(chan error, 1)
	go func() {
		switch path {
		case cpWriteControl:
			closed <- c.WriteControl(ws.CloseMessage, body, time.Now().Add(time.Hour))
		case cpWriteMessage:
			closed <- c.WriteMessage(ws.CloseMessage, body)
		case cpNextWriter:
			w, err := c.NextWriter(ws.CloseMessage)
			if err == nil {
				if _, err = w.Write(body); err == nil {
					err = w.Close()
				}
			}
			closed <- err
		default:
			pm, err := ws.NewPreparedMessage(ws.CloseMessage, body)
			if err == nil {
				err = c.WritePreparedMessage(pm)
			}
			closed <- err
		}
	}()
	limit := time.After(30 * time.Second)
	select {
	case <-a.Gated:
	case <-limit:
		out.Inconcl("the close frame never reached the transport")
		return
	}
	// the peer's ping and a message behind it arrive while the close frame is stuck
	nPings := r.Range(1, 2)
	for i := 0; i < nPings; i++ {
		f := wire.Frame{Op: 9, Fin: true, Masked: cfg.Server, Key: [4]byte{9, 8, 7, 6}, Payload: []byte(fmt.Sprintf("ping-%d-while-close-stalls", i))}
		b.Write(wire.Append(nil, f))
	}
	b.Write(wire.Append(nil, wire.Frame{Op: 1, Fin: true, Masked: cfg.Server, Key: [4]byte{1, 2, 3, 4}, Payload: []byte("behind-the-ping")}))
	t0 := time.Now()
	select {
	case m, ok := <-got:
		if !ok || m != "behind-the-ping" {
			out.Inconcl(fmt.Sprintf("the reader did not deliver the message behind the ping (got %q, open=%v)", m, ok))
			return
		}
	case <-limit:
		out.Inconcl("the reader stayed blocked behind the ping for 30 s while the writer was stalled")
		return
	}
	waited := time.Since(t0)
	release()
	select {
	case err := <-closed:
		if err != nil {
			out.Violate("C09:close-call-failed", fmt.Sprintf("sending the close through %s failed although the transport accepted it in the end: %v", closePathNames[path], err), desc)
			return
		}
	case <-limit:
		out.Inconcl("the close-sending call did not return after the gate was opened")
		return
	}
	// later calls fail, and nothing more is written
	e1 := c.WriteMessage(1, []byte("late"))
	e2 := c.WriteControl(ws.PingMessage, []byte("late"), time.Now().Add(time.Second))
	if !errors.Is(e1, ws.ErrCloseSent) || !errors.Is(e2, ws.ErrCloseSent) {
		out.Violate("C09:call-after-close-not-ErrCloseSent", fmt.Sprintf("after the close frame was written: WriteMessage -> %v, WriteControl -> %v", e1, e2), desc)
		return
	}
	time.Sleep(2 * time.Millisecond)
	out.Count("pings_during_a_stalled_close", int64(nPings))
	out.Count("ping_handler_wait_ms_sum", waited.Milliseconds())
	frames, rest, derr := wire.Decode(a.Written())
	desc["frames"] = framesDesc(frames, 8)
	if derr != nil || len(frames) == 0 {
		out.Violate("C09:undecodable", fmt.Sprintf("write log does not decode: %v (%d frames)", derr, len(frames)), desc)
		return
	}
	ci := -1
	for i, f := range frames {
		if f.Op == 8 {
			ci = i
			break
		}
	}
	if ci < 0 {
		out.Violate("C09:close-frame-missing", "the close call returned nil but no close frame is on the wire", desc)
		return
	}
	if ci != len(frames)-1 || len(rest) != 0 {
		out.Violate("C09:bytes-after-close", fmt.Sprintf("%d frame(s) and %d loose byte(s) were written after the close frame (first: opcode %d, %q); the ping handler had given up after %v", len(frames)-1-ci, len(rest), opAfter(frames, ci), payloadAfter(frames, ci), waited.Round(time.Millisecond)), desc)
		return
	}
	out.Count("concurrent_runs", 1)
}

func opAfter(fs []wire.Frame, i int) int {
	if i+1 < len(fs) {
		return fs[i+1].Op
	}
	return -1
}

func payloadAfter(fs []wire.Frame, i int) string {
	if i+1 < len(fs) {
		return string(core.Trunc(fs[i+1].Payload, 40))
	}
	return ""
}
