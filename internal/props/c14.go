package props

import (
	"bytes"
	"context"
	"crypto/tls"
	"encoding/base64"
	"errors"
	"fmt"
	"io"
	"net"
	"net/http"
	"net/http/httptrace"
	"net/textproto"
	"net/url"
	"strings"
	"sync"

	ws "github.com/gorilla/websocket"

	"verif/internal/core"
	"verif/internal/gen"
	"verif/internal/httpx"
	"verif/internal/xport"
)

func init() {
	core.Register(&core.Prop{
		ID:    "C14",
		Level: "exploration",
		Rule: "case = (URL assembled from scheme/host/port/path/query/fragment components with known expected request target, Dialer settings, caller header map incl. Host override and protocol-owned headers, scripted server reply plan: status, Upgrade/Connection token lists, Accept correct/wrong/truncated/for another key/for the PREVIOUS dial's key/missing, body of 0-3000 bytes, malformed heads); " +
			"the request written by Dial is parsed by the strict independent parser; distinct = hash of the case descriptor; non-trivial = the dial reached the network (a request was written)",
		Variants: core.PlainOnly,
		Cases: func(tier, variant string) int {
			if tier == "thorough" {
				return 400000
			}
			return 60000
		},
		Run:      runC14,
		Required: []string{"requests_parsed", "replies_accepted", "replies_refused", "refused_before_network", "keys_checked_distinct", "dialers_with_cookie_jar", "refusals_with_a_fault_inside_the_body", "servers_selecting_a_subprotocol_offered_through_the_caller_header"},
		Assumptions: []string{
			"caller header maps use canonical keys (the http.Header contract)",
			"replies whose Upgrade/Connection lists contain the token only inside a malformed line, or with duplicate Accept lines, are UNSPECIFIED and only executed",
		},
	})
}

var errConnReset = errors.New("read tcp 192.0.2.1:80: connection reset by peer")

var (
	keysMu   sync.Mutex
	keysSeen = map[string]bool{}
)

type c14Case struct {
	URL       string              `json:"url"`
	WantHost  string              `json:"want_host"`
	WantTgt   string              `json:"want_target"`
	Subs      []string            `json:"subprotocols"`
	Comp      bool                `json:"enable_compression"`
	Hdr       map[string][]string `json:"caller_header"`
	Forbidden string              `json:"forbidden_header,omitempty"`
	BadURL    string              `json:"bad_url,omitempty"`
	Reply     c14Reply            `json:"reply"`
	Jar       bool                `json:"cookie_jar,omitempty"` // Dialer.Jar holds a cookie for the URL
	Trace     bool                `json:"httptrace_hooks,omitempty"`
}

// fixedJar is a cookie jar that always offers one cookie and records what it is given.
type fixedJar struct {
	mu  sync.Mutex
	set int
}

func (j *fixedJar) SetCookies(u *url.URL, cookies []*http.Cookie) {
	j.mu.Lock()
	j.set += len(cookies)
	j.mu.Unlock()
}
func (j *fixedJar) Cookies(u *url.URL) []*http.Cookie {
	return []*http.Cookie{{Name: "session", Value: "jar"}}
}

type c14Reply struct {
	Status     int      `json:"status"`
	Reason     string   `json:"reason"`
	Upgrade    []string `json:"upgrade"`
	Connection []string `json:"connection"`
	Accept     string   `json:"accept_kind"`
	BodyLen    int      `json:"body_len"`
	Malformed  int      `json:"malformed,omitempty"`
	Ext        int      `json:"extensions_header,omitempty"` // 1,2: permessage-deflate lacking no_context_takeover parameters; 3: another extension
	// BodyFault: the head arrives complete, the body is cut after BodyGot bytes by 1 a connection reset, 2 a timeout
	BodyFault int    `json:"body_fault,omitempty"`
	BodyGot   int    `json:"body_bytes_before_fault,omitempty"`
	Class     string `json:"class"`
}

// c14Concurrent: Dialer methods are documented as safe for concurrent use. Several
// goroutines dial at the same moment; every dial must send its own fresh key and
// accept only the reply computed for it.
func c14Concurrent(ctx *core.Ctx, out *core.Out) {
	const G, N = 8, 12
	var wg sync.WaitGroup
	var mu sync.Mutex
	seen := map[string]int{}
	var failures []string
	d := &ws.Dialer{}
	start := make(chan struct{})
	for g := 0; g < G; g++ {
		wg.Add(1)
		go func(g int) {
			defer wg.Done()
			defer func() {
				if rec := recover(); rec != nil {
					mu.Lock()
					failures = append(failures, fmt.Sprintf("panic in a concurrent Dial: %v", rec))
					mu.Unlock()
				}
			}()
			<-start
			for i := 0; i < N; i++ {
				var key string
				c, _, err, _ := scriptedDial(d, "ws://conc.example/x", nil, func(req []byte) []xport.Chunk {
					key = reqHeader(req, "Sec-WebSocket-Key")
					return []xport.Chunk{{Data: good101(req, "")}}
				})
				mu.Lock()
				seen[key]++
				if c == nil || err != nil {
					failures = append(failures, fmt.Sprintf("concurrent dial %d/%d failed although the reply was computed for its own key %q: %v", g, i, key, err))
				}
				mu.Unlock()
			}
		}(g)
	}
	close(start)
	wg.Wait()
	out.Eval(fmt.Sprintf("concurrent-dials|%d", ctx.Idx), true)
	out.Count("concurrent_dials", G*N)
	for k, n := range seen {
		out.Count("keys_checked_distinct", 1)
		if n > 1 {
			out.Violate("C14:key-reused-by-concurrent-dials", fmt.Sprintf("challenge key %q was sent by %d dials that ran at the same time", k, n), nil)
			return
		}
		keysMu.Lock()
		dup := keysSeen[k]
		keysSeen[k] = true
		keysMu.Unlock()
		if dup {
			out.Violate("C14:key-reused", fmt.Sprintf("challenge key %q was already used by an earlier dial of this run", k), nil)
			return
		}
	}
	if len(failures) > 0 {
		out.Violate("C14:concurrent-dial-fails", failures[0], map[string]interface{}{"failures": len(failures)})
	}
}

func runC14(ctx *core.Ctx, out *core.Out) {
	r := ctx.R
	if ctx.Idx%40 == 13 {
		c14Concurrent(ctx, out)
		return
	}
	cs := c14Case{Hdr: map[string][]string{}}
	// ---- URL
	scheme := "ws"
	host := []string{"example.com", "example.com:8080", "EXAMPLE.org", "10.1.2.3", "10.1.2.3:81", "[2001:db8::7]", "[2001:db8::7]:9000", "localhost:80", "a-b.c.example", "[2001:db8::7]:80", "[::1]:80", "example.com:443"}[r.Intn(12)]
	path := []string{"", "/", "/a", "/a/b%20c", "/a%2Fb", "/~user/x.y", "/a;b=c", "/%E4%B8%96", "/a//b", "/ws/"}[r.Intn(10)]
	query := []string{"", "", "x=1", "a=b&c=d%26e", "q=%20+", "x", "a=1&a=2"}[r.Intn(7)]
	frag := []string{"", "", "#frag", "#a/b?c"}[r.Intn(4)]
	cs.URL = scheme + "://" + host + path
	cs.WantTgt = path
	if path == "" {
		cs.WantTgt = "/"
	}
	if query != "" {
		cs.URL += "?" + query
		cs.WantTgt += "?" + query
	}
	cs.URL += frag
	cs.WantHost = host
	// ---- dialer + caller headers
	if r.Chance(1, 3) {
		cs.Subs = [][]string{{"chat"}, {"chat", "superchat"}, {"v1.json", "v2.json", "x"}}[r.Intn(3)]
	}
	cs.Comp = r.Bool()
	if r.Chance(1, 3) {
		cs.Hdr["Origin"] = []string{"http://" + host}
	}
	if r.Chance(1, 3) {
		cs.Hdr["Cookie"] = []string{"a=b; c=d"}
		if r.Bool() {
			cs.Hdr["Cookie"] = []string{"a=b; c=d", "e=f"}
		}
	}
	cs.Jar = r.Chance(1, 4)
	cs.Trace = r.Chance(1, 4)
	if r.Chance(1, 3) {
		cs.Hdr["X-Custom"] = []string{"v1", "v2"}
	}
	if r.Chance(1, 4) {
		cs.Hdr["Host"] = []string{"override.example:1234"}
		cs.WantHost = "override.example:1234"
	}
	if len(cs.Subs) == 0 && r.Chance(1, 4) {
		cs.Hdr["Sec-Websocket-Protocol"] = []string{"caller-proto"}
		if r.Bool() {
			cs.Hdr["Sec-Websocket-Protocol"] = []string{"p1", "p2"}
		}
	}
	dials := 0
	var conns []*xport.Conn
	d := &ws.Dialer{Subprotocols: cs.Subs, EnableCompression: cs.Comp, ReadBufferSize: []int{0, 1, 300, 4096}[r.Intn(4)], WriteBufferSize: []int{0, 1, 300}[r.Intn(3)]}
	if cs.Jar {
		d.Jar = &fixedJar{}
		out.Count("dialers_with_cookie_jar", 1)
	}
	fail := func(sig, what string, extra map[string]interface{}) {
		dd := map[string]interface{}{"case": cs}
		for k, v := range extra {
			dd[k] = v
		}
		out.Violate("C14:"+sig, what, dd)
	}
	// one header map, reused for every dial of the case as an application's reconnect
	// loop would (the bad-URL / forbidden-header probes get their own copy)
	var shared http.Header
	hdr := func() http.Header {
		if shared == nil {
			shared = http.Header{}
			for k, v := range cs.Hdr {
				shared[k] = append([]string(nil), v...)
			}
		}
		return shared
	}
	fresh := func() http.Header {
		h := http.Header{}
		for k, v := range cs.Hdr {
			h[k] = append([]string(nil), v...)
		}
		return h
	}
	dialWith := func(url string, h http.Header, reply func(req []byte) []xport.Chunk) (*ws.Conn, *http.Response, error, *xport.Conn) {
		var the *xport.Conn
		dd := *d
		dd.NetDialContext = func(ctx context.Context, network, addr string) (net.Conn, error) {
			dials++
			nc := xport.New(nil)
			answered := false
			nc.OnWrite = func(all []byte) []xport.Chunk {
				if answered {
					return nil
				}
				if i := bytes.Index(all, []byte("\r\n\r\n")); i >= 0 {
					answered = true
					return reply(all[:i+4])
				}
				return nil
			}
			the = nc
			conns = append(conns, nc)
			return nc, nil
		}
		dctx := context.Background()
		if cs.Trace {
			// every httptrace hook set (to functions that do nothing): tracing must not change the outcome
			dctx = httptrace.WithClientTrace(dctx, &httptrace.ClientTrace{
				GetConn: func(string) {}, GotConn: func(httptrace.GotConnInfo) {}, GotFirstResponseByte: func() {},
				Got100Continue: func() {}, Got1xxResponse: func(int, textproto.MIMEHeader) error { return nil },
				DNSStart: func(httptrace.DNSStartInfo) {}, DNSDone: func(httptrace.DNSDoneInfo) {}, ConnectStart: func(string, string) {},
				ConnectDone: func(string, string, error) {}, TLSHandshakeStart: func() {}, TLSHandshakeDone: func(tls.ConnectionState, error) {},
				WroteHeaderField: func(string, []string) {}, WroteHeaders: func() {}, WroteRequest: func(httptrace.WroteRequestInfo) {},
			})
		}
		c, resp, err := dd.DialContext(dctx, url, h)
		return c, resp, err, the
	}

	// ---- (A) refused before any network activity
	switch r.Intn(8) {
	case 0:
		cs.BadURL = []string{"http://" + host + "/", "https://" + host, "ftp://" + host, "//" + host + "/x", host + "/x", "WS://" + host, "wss+unix://" + host, ""}[r.Intn(8)]
		if strings.HasPrefix(cs.BadURL, "WS://") {
			cs.BadURL = "tcp://" + host // url.Parse lower-cases the scheme, so WS:// is ws://
		}
	case 1:
		cs.BadURL = []string{"ws://user@" + host + "/", "ws://user:pw@" + host + "/x", "wss://:pw@" + host, "ws://@" + host + "/"}[r.Intn(4)]
	case 2:
		k := []string{"Upgrade", "Connection", "Sec-Websocket-Key", "Sec-Websocket-Version", "Sec-Websocket-Extensions"}[r.Intn(5)]
		if len(cs.Subs) > 0 && r.Bool() {
			k = "Sec-Websocket-Protocol"
		}
		cs.Forbidden = k
	}
	if cs.BadURL != "" || cs.Forbidden != "" {
		h := fresh()
		url := cs.URL
		if cs.BadURL != "" {
			url = cs.BadURL
		}
		if cs.Forbidden != "" {
			h[cs.Forbidden] = []string{"evil-value"}
		}
		out.Eval(core.J(cs), false)
		var sawReq []byte
		c, _, err, _ := dialWith(url, h, func(req []byte) []xport.Chunk {
			sawReq = append([]byte(nil), req...)
			return []xport.Chunk{{Data: good101(req, "")}}
		})
		if cs.BadURL != "" {
			if c != nil || err == nil {
				fail("bad-url-accepted", fmt.Sprintf("Dial(%q) returned a connection", url), nil)
				return
			}
			if dials != 0 {
				fail("network-activity-for-bad-url", fmt.Sprintf("Dial(%q) invoked the dial function although the URL must be refused up front", url), nil)
				return
			}
			out.Count("refused_before_network", 1)
			return
		}
		// protocol-owned header supplied by the caller: refused before the
		// network, or the protocol's own value stays in place
		if err != nil && c == nil && dials == 0 {
			out.Count("refused_before_network", 1)
			return
		}
		if sawReq != nil {
			if hh, perr := httpx.ParseRequest(sawReq); perr == nil {
				for _, v := range hh.Get(cs.Forbidden) {
					if strings.Contains(v, "evil-value") {
						fail("protocol-header-overridden", fmt.Sprintf("caller-supplied %s: evil-value reached the wire", cs.Forbidden), map[string]interface{}{"request": string(sawReq)})
						return
					}
				}
				out.Count("refused_before_network", 0)
				return
			}
		}
		fail("protocol-header-handling", fmt.Sprintf("caller-supplied %s: Dial returned (%v, %v) after %d dial calls", cs.Forbidden, c != nil, err, dials), nil)
		return
	}

	// ---- (B) a first, honest dial: the request is judged
	var req1 []byte
	c1, resp1, err1, nc1 := dialWith(cs.URL, hdr(), func(req []byte) []xport.Chunk {
		req1 = append([]byte(nil), req...)
		extra := ""
		if len(cs.Subs) > 0 {
			extra = "Sec-WebSocket-Protocol: " + cs.Subs[0] + "\r\n"
		} else if cp := cs.Hdr["Sec-Websocket-Protocol"]; len(cp) > 0 {
			// the caller offered subprotocols through its header map: the server picks the first
			extra = "Sec-WebSocket-Protocol: " + cp[0] + "\r\n"
		}
		return []xport.Chunk{{Data: good101(req, extra)}}
	})
	out.Eval(core.J(cs), true)
	if req1 == nil {
		fail("no-request-written", fmt.Sprintf("Dial wrote no complete request head; err=%v", err1), nil)
		return
	}
	h, perr := httpx.ParseRequest(req1)
	if perr != nil {
		fail("request-malformed", "the request Dial wrote does not parse strictly: "+perr.Error(), map[string]interface{}{"request": string(req1)})
		return
	}
	out.Count("requests_parsed", 1)
	rq := map[string]interface{}{"request": string(req1)}
	if h.Method != "GET" || h.Target != cs.WantTgt {
		fail("request-line", fmt.Sprintf("request line is %q %q, expected GET %q", h.Method, h.Target, cs.WantTgt), rq)
		return
	}
	hostOK := func(got string) bool {
		// an explicitly written default port may be dropped (RFC 6455 4.1); nothing else may change
		return got == cs.WantHost || (strings.HasSuffix(cs.WantHost, ":80") && got == strings.TrimSuffix(cs.WantHost, ":80"))
	}
	if hv := h.Get("Host"); len(hv) != 1 || !hostOK(hv[0]) {
		fail("host-header", fmt.Sprintf("Host header is %q, expected %q", hv, cs.WantHost), rq)
		return
	}
	if !httpx.ListHasToken(h.Get("Upgrade"), "websocket") || !httpx.ListHasToken(h.Get("Connection"), "upgrade") {
		fail("upgrade-headers", "Upgrade: websocket / Connection: Upgrade missing from the request", rq)
		return
	}
	if v := h.Get("Sec-WebSocket-Version"); len(v) != 1 || v[0] != "13" {
		fail("version-header", fmt.Sprintf("Sec-WebSocket-Version is %q", v), rq)
		return
	}
	kv := h.Get("Sec-WebSocket-Key")
	if len(kv) != 1 {
		fail("key-header", fmt.Sprintf("%d Sec-WebSocket-Key lines", len(kv)), rq)
		return
	}
	if raw, e := base64.StdEncoding.DecodeString(kv[0]); e != nil || len(raw) != 16 || base64.StdEncoding.EncodeToString(raw) != kv[0] {
		fail("key-format", fmt.Sprintf("key %q is not the base64 of 16 bytes", kv[0]), rq)
		return
	}
	key1 := kv[0]
	keysMu.Lock()
	dup := keysSeen[key1]
	keysSeen[key1] = true
	keysMu.Unlock()
	out.Count("keys_checked_distinct", 1)
	if dup {
		fail("key-reused", fmt.Sprintf("challenge key %q was already used by an earlier dial of this run", key1), rq)
		return
	}
	pv := h.Get("Sec-WebSocket-Protocol")
	switch {
	case len(cs.Subs) > 0:
		var got []string
		for _, l := range pv {
			for _, e := range strings.Split(l, ",") {
				got = append(got, strings.TrimSpace(e))
			}
		}
		if core.J(got) != core.J(cs.Subs) {
			fail("subprotocols-header", fmt.Sprintf("requested subprotocols on the wire %q, Dialer.Subprotocols %q", got, cs.Subs), rq)
			return
		}
	case cs.Hdr["Sec-Websocket-Protocol"] != nil:
		var got []string
		for _, l := range pv {
			for _, e := range strings.Split(l, ",") {
				got = append(got, strings.TrimSpace(e))
			}
		}
		if core.J(got) != core.J(cs.Hdr["Sec-Websocket-Protocol"]) {
			fail("subprotocols-header", fmt.Sprintf("caller-supplied Sec-Websocket-Protocol %q went out as %q", cs.Hdr["Sec-Websocket-Protocol"], pv), rq)
			return
		}
	case len(pv) != 0:
		fail("subprotocols-header", fmt.Sprintf("unrequested Sec-WebSocket-Protocol %q", pv), rq)
		return
	}
	offer := false
	for _, e := range h.Get("Sec-WebSocket-Extensions") {
		if strings.Contains(e, "permessage-deflate") {
			offer = true
		}
	}
	if offer != cs.Comp {
		fail("extension-offer", fmt.Sprintf("permessage-deflate offered=%v but EnableCompression=%v", offer, cs.Comp), rq)
		return
	}
	for k, vs := range cs.Hdr {
		if k == "Host" || k == "Sec-Websocket-Protocol" {
			continue
		}
		got := h.Get(k)
		if k == "Cookie" && cs.Jar {
			// the jar's cookies are merged into the Cookie lines; every cookie the caller gave must still be there
			all := "; " + strings.Join(got, "; ") + ";"
			for _, v := range vs {
				for _, pair := range strings.Split(v, "; ") {
					if !strings.Contains(all, "; "+pair+";") {
						fail("caller-header-lost", fmt.Sprintf("caller cookie %q is not in the request's Cookie lines %q (a cookie jar is configured)", pair, got), rq)
						return
					}
				}
			}
			continue
		}
		if core.J(got) != core.J(vs) {
			fail("caller-header-lost", fmt.Sprintf("caller header %s: %q on the wire, %q given", k, got, vs), rq)
			return
		}
	}
	if c1 == nil || err1 != nil {
		fail("good-reply-refused", fmt.Sprintf("a correct 101 reply was refused: %v", err1), rq)
		return
	}
	if nc1.Closed() {
		fail("conn-closed-on-success", "the transport was closed although Dial succeeded", nil)
		return
	}
	if cp := cs.Hdr["Sec-Websocket-Protocol"]; len(cs.Subs) == 0 && len(cp) > 0 {
		out.Count("servers_selecting_a_subprotocol_offered_through_the_caller_header", 1)
		if c1.Subprotocol() != cp[0] {
			fail("subprotocol-adoption", fmt.Sprintf("Subprotocol() is %q, the server selected %q (offered through the caller's header map)", c1.Subprotocol(), cp[0]), nil)
			return
		}
	}
	if len(cs.Subs) > 0 && (c1.Subprotocol() != cs.Subs[0] || resp1 == nil) {
		fail("subprotocol-adoption", fmt.Sprintf("Subprotocol() is %q, the server selected %q", c1.Subprotocol(), cs.Subs[0]), nil)
		return
	}
	out.Count("replies_accepted", 1)

	// ---- (C) a second dial with a generated reply plan
	rp := &cs.Reply
	rp.Status = 101
	if r.Chance(1, 4) {
		rp.Status = []int{200, 400, 403, 404, 301, 500, 100, 102, 201, 426}[r.Intn(10)]
	}
	rp.Reason = []string{"Switching Protocols", "OK", "", "Whatever You Like"}[r.Intn(4)]
	forceGood := r.Chance(1, 2)
	for try := 0; try < 50; try++ {
		rp.Upgrade = genTokenLines(r, "websocket", []string{"websockets", "web socket", "websocket/13", "xwebsocket", "\"websocket\"", "h2c"})
		if !forceGood || classOfList(rp.Upgrade, "websocket") == cValid {
			break
		}
	}
	for try := 0; try < 50; try++ {
		rp.Connection = genTokenLines(r, "upgrade", []string{"upgrades", "xupgrade", "upgrade;q=1", "close", "keep-alive"})
		if !forceGood || classOfList(rp.Connection, "upgrade") == cValid {
			break
		}
	}
	rp.Accept = []string{"correct", "correct", "correct", "correct-padded", "wrong", "truncated", "other-key", "previous-dial", "missing", "empty", "lowercased", "two-lines"}[r.Intn(12)]
	if rp.Status != 101 || r.Chance(1, 5) {
		rp.BodyLen = []int{0, 1, 100, 1023, 1024, 1025, 3000}[r.Intn(7)]
	}
	if r.Chance(1, 15) {
		rp.Malformed = 1 + r.Intn(5)
	}
	if rp.Malformed == 0 && rp.BodyLen > 0 && rp.Status >= 200 && rp.Status != 101 && r.Chance(1, 3) {
		rp.BodyFault = 1 + r.Intn(2)
		rp.BodyGot = r.Intn(rp.BodyLen)
	}
	if r.Chance(1, 5) {
		rp.Ext = 1 + r.Intn(3)
	}
	class := cValid
	var bad []string
	if rp.Status != 101 {
		class = cInvalid
		bad = append(bad, "status")
	}
	for name, lc := range map[string]int{"upgrade": classOfList(rp.Upgrade, "websocket"), "connection": classOfList(rp.Connection, "upgrade")} {
		switch lc {
		case cInvalid:
			bad = append(bad, name)
		case cUnclear:
			if class == cValid {
				class = cUnclear
			}
		}
	}
	switch rp.Accept {
	case "correct", "correct-padded":
	case "two-lines":
		if class == cValid {
			class = cUnclear
		}
	default:
		bad = append(bad, "accept")
	}
	if (rp.Ext == 1 || rp.Ext == 2) && class == cValid {
		class = cUnclear // a good reply with unusable compression parameters is C15's business
	}
	if len(bad) > 0 {
		class = cInvalid
	}
	rp.Class = []string{"MUST_CONNECT", "MUST_REFUSE", "UNSPECIFIED"}[class]
	body := r.Payload(gen.PText, rp.BodyLen)
	var req2 []byte
	c2, resp2, err2, nc2 := dialWith(cs.URL, hdr(), func(req []byte) []xport.Chunk {
		req2 = append([]byte(nil), req...)
		key := reqHeader(req, "Sec-WebSocket-Key")
		var b bytes.Buffer
		switch rp.Malformed {
		case 1:
			return []xport.Chunk{{Data: []byte("garbage\r\n\r\n")}}
		case 2:
			return []xport.Chunk{{Data: []byte("HTTP/1.1 101\r\n")}} // truncated head
		case 3:
			return []xport.Chunk{{Data: []byte("HTTP/1.1 abc Switching\r\n\r\n")}}
		case 4:
			return []xport.Chunk{{Data: []byte("\r\n\r\n")}}
		case 5:
			return nil // EOF at once
		}
		fmt.Fprintf(&b, "HTTP/1.1 %d %s\r\n", rp.Status, rp.Reason)
		for _, l := range rp.Upgrade {
			fmt.Fprintf(&b, "Upgrade: %s\r\n", l)
		}
		for _, l := range rp.Connection {
			fmt.Fprintf(&b, "Connection: %s\r\n", l)
		}
		acc := acceptDigest(key)
		switch rp.Accept {
		case "correct":
			fmt.Fprintf(&b, "Sec-WebSocket-Accept: %s\r\n", acc)
		case "correct-padded":
			fmt.Fprintf(&b, "sec-websocket-accept:   %s \t\r\n", acc)
		case "wrong":
			fmt.Fprintf(&b, "Sec-WebSocket-Accept: %s\r\n", base64.StdEncoding.EncodeToString(r.Bytes(20)))
		case "truncated":
			fmt.Fprintf(&b, "Sec-WebSocket-Accept: %s\r\n", acc[:len(acc)-1-r.Intn(5)])
		case "other-key":
			fmt.Fprintf(&b, "Sec-WebSocket-Accept: %s\r\n", acceptDigest(base64.StdEncoding.EncodeToString(r.Bytes(16))))
		case "previous-dial":
			fmt.Fprintf(&b, "Sec-WebSocket-Accept: %s\r\n", acceptDigest(key1))
		case "empty":
			fmt.Fprintf(&b, "Sec-WebSocket-Accept: \r\n")
		case "lowercased":
			fmt.Fprintf(&b, "Sec-WebSocket-Accept: %s\r\n", strings.ToLower(acc))
			if strings.ToLower(acc) == acc {
				fmt.Fprintf(&b, "X-Note: digest had no upper-case letters\r\n")
			}
		case "two-lines":
			fmt.Fprintf(&b, "Sec-WebSocket-Accept: %s\r\nSec-WebSocket-Accept: %s\r\n", acc, "AAAAAAAAAAAAAAAAAAAAAAAAAAA=")
		}
		switch rp.Ext {
		case 1:
			fmt.Fprintf(&b, "Sec-WebSocket-Extensions: permessage-deflate\r\n")
		case 2:
			fmt.Fprintf(&b, "Sec-WebSocket-Extensions: permessage-deflate; server_no_context_takeover\r\n")
		case 3:
			fmt.Fprintf(&b, "Sec-WebSocket-Extensions: foo; bar=\"x\"\r\n")
		}
		fmt.Fprintf(&b, "X-Reply-Marker: m-%d\r\n", ctx.Idx)
		if rp.Status != 101 || rp.BodyLen > 0 {
			fmt.Fprintf(&b, "Content-Length: %d\r\n", len(body))
		}
		b.WriteString("\r\n")
		if rp.BodyFault != 0 {
			b.Write(body[:rp.BodyGot])
			ferr := error(errConnReset)
			if rp.BodyFault == 2 {
				ferr = xport.FaultTimeout.Err()
			}
			return []xport.Chunk{{Data: b.Bytes()}, {Err: ferr}}
		}
		b.Write(body)
		return []xport.Chunk{{Data: b.Bytes()}}
	})
	if req2 != nil {
		// the same URL, Dialer and header map: the second request must be the first one with another key
		strip := func(b []byte) string {
			var keep []string
			for _, l := range strings.Split(string(b), "\r\n") {
				if !strings.HasPrefix(strings.ToLower(l), "sec-websocket-key:") {
					keep = append(keep, l)
				}
			}
			return strings.Join(keep, "\r\n")
		}
		if strip(req1) != strip(req2) {
			fail("request-depends-on-earlier-dial", "a second Dial with the same URL, Dialer and header map wrote a different request (apart from the key)", map[string]interface{}{"first": string(req1), "second": string(req2)})
			return
		}
		for k, v := range cs.Hdr {
			if core.J(shared[k]) != core.J(v) {
				fail("caller-header-map-modified", fmt.Sprintf("Dial modified the caller's header map: %s is now %q, was %q", k, shared[k], v), nil)
				return
			}
		}
		k2 := reqHeader(req2, "Sec-WebSocket-Key")
		keysMu.Lock()
		dup := keysSeen[k2]
		keysSeen[k2] = true
		keysMu.Unlock()
		out.Count("keys_checked_distinct", 1)
		if dup {
			fail("key-reused", fmt.Sprintf("challenge key %q of the second dial was already used (first dial: %q)", k2, key1), nil)
			return
		}
	}
	if rp.Malformed != 0 {
		if c2 != nil || err2 == nil {
			fail("malformed-reply-accepted", fmt.Sprintf("Dial returned a connection for a malformed reply (kind %d)", rp.Malformed), nil)
			return
		}
		out.Count("replies_refused", 1)
		return
	}
	if rp.Accept == "lowercased" && strings.ToLower(acceptDigest(reqHeader(req2, "Sec-WebSocket-Key"))) == acceptDigest(reqHeader(req2, "Sec-WebSocket-Key")) {
		return // the digest happened to contain no upper-case letter
	}
	switch class {
	case cUnclear:
		out.Count("unspecified_replies", 1)
	case cValid:
		if c2 == nil || err2 != nil {
			fail("good-reply-refused", fmt.Sprintf("a reply satisfying all four conditions was refused: %v", err2), nil)
			return
		}
		out.Count("replies_accepted", 1)
	case cInvalid:
		if c2 != nil {
			fail("bad-reply-accepted:"+strings.Join(bad, "+"), fmt.Sprintf("Dial returned a connection although the reply fails: %v", bad), nil)
			return
		}
		if err2 != ws.ErrBadHandshake {
			fail("bad-reply-error", fmt.Sprintf("a negative reply (%v) produced %v instead of ErrBadHandshake", bad, err2), nil)
			return
		}
		if resp2 == nil || resp2.StatusCode != rp.Status || resp2.Header.Get("X-Reply-Marker") != fmt.Sprintf("m-%d", ctx.Idx) {
			fail("bad-reply-response", "ErrBadHandshake without the server's response (status, headers)", nil)
			return
		}
		got, _ := io.ReadAll(resp2.Body)
		want := body
		if rp.Status < 200 {
			want = nil // 1xx responses have no body (RFC 9110 15.2); what follows is not part of the response
		}
		if len(want) > 1024 {
			want = want[:1024]
		}
		if rp.BodyFault != 0 {
			// the reply's status and headers arrived in full: it is still "any other reply";
			// of the body only a prefix can be demanded
			out.Count("refusals_with_a_fault_inside_the_body", 1)
			if len(got) > len(want) || !bytes.HasPrefix(want, got) {
				fail("bad-reply-body", fmt.Sprintf("response body has %d bytes which are not a prefix of the %d sent before the fault", len(got), rp.BodyGot), nil)
				return
			}
		} else if !bytes.Equal(got, want) {
			fail("bad-reply-body", fmt.Sprintf("response body has %d bytes, expected the first %d of %d", len(got), len(want), len(body)), nil)
			return
		}
		if !nc2.Closed() {
			out.Count("refused_but_transport_open", 1) // C16's business
		}
		out.Count("replies_refused", 1)
	}
	if ctx.Idx%1999 == 0 {
		out.Sample(map[string]interface{}{"case": cs, "request": string(req1)})
	}
	_ = conns
}
