package props

import (
	"bytes"
	"fmt"
	"io"
	"time"

	ws "github.com/gorilla/websocket"

	"verif/internal/core"
	"verif/internal/gen"
	"verif/internal/wire"
	"verif/internal/xport"
)

func init() {
	core.Register(&core.Prop{
		ID:    "C05",
		Level: "fault_enumeration",
		Rule: "per generated valid stream (1-4 messages, fragmented or not, compressed or not, controls interleaved, <= ~700 bytes): EVERY cut offset 0..len x 8 fault kinds {EOF, error, timeout, io.ErrUnexpectedEOF} x {after the bytes, together with the last bytes}, " +
			"each under 2 PRNG-chosen (read buffer, chunking, read program) executions; distinct = (stream hash, cut, kind, execution); non-trivial = the cut falls strictly inside the stream",
		Variants: core.PlainOnly,
		Cases: func(tier, variant string) int {
			if tier == "thorough" {
				return 4000
			}
			return 160
		},
		Run:          runC05,
		BeatTimeoutS: 60,
		Exhaustive:   false,
		Required:     []string{"faults_injected", "messages_reported_complete", "partial_messages_refused", "streams_read_through_joinmessages", "retries_after_moving_the_read_deadline", "executions_under_a_sufficient_read_limit", "large_single_frame_messages_cut", "failed_connections_polled_up_to_the_documented_limit"},
		Assumptions: []string{
			"exhaustive over cut offsets x fault kinds for each generated stream; streams, chunkings and read programs are sampled",
			"after a read error delivered together with data, a message completed by that data may or may not be reported complete (lower <= j <= upper)",
		},
	})
}

var faultNames = []string{"eof-after", "eof-with-last-bytes", "error-after", "error-with-last-bytes", "timeout-after", "timeout-with-last-bytes", "unexpected-eof-after", "unexpected-eof-with-last-bytes"}

// c05Large: one unfragmented, uncompressed message of 64 KiB or more (where a reader might
// size a buffer from the header) cut at a dozen offsets by every fault kind.
func c05Large(ctx *core.Ctx, out *core.Out) {
	r := ctx.R
	fromClient := r.Bool()
	size := []int{65535, 65536, 65537, 100000, 1 << 20}[r.Intn(5)]
	data := r.Payload(gen.PCounter, size)
	f := wire.Frame{Fin: true, Op: 2, Masked: fromClient, Payload: data}
	if fromClient {
		f.Key = maskKey(r)
	}
	st := &Stream{Frames: []wire.Frame{f}, Events: []Ev{{Kind: 2, Data: data, First: 0, Last: 0}}}
	st.finish()
	exp := st.DataEvents()
	ends := []int{len(st.Bytes)}
	for i := 0; i < 12; i++ {
		cut := r.Range(1, len(st.Bytes))
		if i == 0 {
			cut = len(st.Bytes) - 1
		}
		for kind := 0; kind < len(faultNames); kind++ {
			ex := rdExec{RB: []int{0, 125, 4096, 65536}[r.Intn(4)], Chunk: xport.ChunkWhole, Mode: r.Intn(2), Server: fromClient}
			out.EvalH(uint64(size)<<40^uint64(cut)<<8^uint64(kind), true)
			out.Count("large_single_frame_messages_cut", 1)
			if !c05Exec(out, st, exp, ends, cut, kind, ex, r) {
				return
			}
		}
	}
}

func runC05(ctx *core.Ctx, out *core.Out) {
	if ctx.Idx%20 == 7 {
		c05Large(ctx, out)
		return
	}
	r := ctx.R
	fromClient := r.Bool()
	comp := r.Chance(1, 3)
	maxSize := 260
	if r.Chance(1, 3) {
		maxSize = 700
	}
	st := genStream(r, StreamOpts{FromClient: fromClient, Comp: comp, MaxMsgs: 4, MaxSize: maxSize, Controls: true, Close: r.Chance(1, 3), UseZlib: false})
	if len(st.Bytes) > 1100 {
		st = genStream(r, StreamOpts{FromClient: fromClient, Comp: comp, MaxMsgs: 2, MaxSize: 120, Controls: true})
	}
	exp := st.DataEvents()
	// end offset of every data message
	ends := make([]int, len(exp))
	for i, e := range exp {
		ends[i] = st.FrameOff[e.Last+1]
	}
	sh := core.Hash(string(st.Bytes))
	frameEnd := map[int]bool{}
	for _, o := range st.FrameOff {
		frameEnd[o] = true
	}
	for cut := 0; cut <= len(st.Bytes); cut++ {
		for kind := 0; kind < len(faultNames); kind++ {
			for k := 0; k < 2; k++ {
				ex := rdExec{RB: r.BufSize(), Chunk: r.Intn(xport.NChunkStyles + 2), Mode: r.Intn(3), Server: fromClient, Comp: comp}
				if ex.Chunk > xport.NChunkStyles {
					ex.Chunk = xport.NChunkStyles // frame-aligned, twice as likely
				}
				if r.Chance(1, 3) {
					ex.RB = 125 // bufio passes large reads straight through
				}
				if k == 1 && frameEnd[cut] {
					// the fault sits exactly on a frame boundary: drain the bufio
					// reader at the payload start so the fault arrives with the payload
					ex.Chunk = xport.NChunkStyles
					if r.Bool() {
						ex.RB = 125
					}
				}
				out.EvalH(sh^uint64(cut)<<32^uint64(kind)<<24^core.Hash(core.J(ex)), cut > 0 && cut < len(st.Bytes))
				if !c05Exec(out, st, exp, ends, cut, kind, ex, r) {
					return
				}
			}
		}
	}
	if ctx.Idx%40 == 0 {
		out.Sample(map[string]interface{}{"stream": st.Summary(), "cuts": len(st.Bytes) + 1, "kinds": faultNames})
	}
}

func c05Exec(out *core.Out, st *Stream, exp []Ev, ends []int, cut, kind int, ex rdExec, r *gen.R) bool {
	var ferr error
	switch kind / 2 {
	case 0:
		ferr = io.EOF
	case 1:
		ferr = xport.ErrInjected
	case 2:
		ferr = &xport.TimeoutErr{S: "xport: injected timeout"}
	default:
		ferr = io.ErrUnexpectedEOF // what crypto/tls reports when TCP ends inside a record
	}
	with := kind%2 == 1
	var chunks []xport.Chunk
	if ex.Chunk == xport.NChunkStyles {
		chunks = st.AlignedChunks(cut, r)
	} else {
		chunks = xport.Rechunk(st.Bytes[:cut], ex.Chunk, r)
	}
	lowerBytes := cut
	if with && len(chunks) > 0 {
		last := &chunks[len(chunks)-1]
		// empty trailing chunks cannot carry "the last bytes"
		if len(last.Data) > 0 {
			last.Err = ferr
			lowerBytes = cut - len(last.Data)
		} else {
			chunks = append(chunks, xport.Chunk{Err: ferr})
		}
	} else {
		chunks = append(chunks, xport.Chunk{Err: ferr})
	}
	// A transient fault (error, timeout): half of the executions let the
	// transport go on delivering the rest of the stream afterwards, which is
	// what a deadline that expired while the peer was slow looks like. The
	// reader must stay failed all the same.
	resumes := kind >= 2 && r.Bool()
	if resumes {
		chunks = append(chunks, xport.Rechunk(st.Bytes[cut:], xport.ChunkRandom, r)...)
	}
	nc := xport.New(chunks)
	nc.EndErr = ferr
	if resumes {
		nc.EndErr = io.EOF
	}
	// the write side of the transport may be broken as well (pong and close echoes
	// then fail); that must not change what the reader reports
	writeBroken := r.Intn(4)
	switch writeBroken {
	case 1:
		nc.WriteErr = io.ErrClosedPipe
	case 2:
		nc.WriteErr = &xport.TimeoutErr{S: "xport: write timeout"}
	}
	if nc.WriteErr != nil {
		out.Count("executions_with_broken_write_side", 1)
	}
	c := ws.VerifNewConn(nc, ex.Server, ex.RB, 256, nil, nil, ex.Comp)
	if cut%4 == 2 {
		// a read limit that every message meets on the wire (it does not bound what inflates from it)
		var limit int64 = 1
		for _, e := range exp {
			var sum int64
			for fi := e.First; fi <= e.Last; fi++ {
				if !st.Frames[fi].IsControl() {
					sum += int64(len(st.Frames[fi].Payload))
				}
			}
			if sum > limit {
				limit = sum
			}
		}
		c.SetReadLimit(limit)
		out.Count("executions_under_a_sufficient_read_limit", 1)
	}
	out.Count("faults_injected", 1)
	if resumes {
		out.Count("faults_after_which_transport_resumes", 1)
	}
	upper, lower := 0, 0
	for _, e := range ends {
		if e <= cut {
			upper++
		}
		if e <= lowerBytes {
			lower++
		}
	}
	fail := func(sig, what string) bool {
		if resumes {
			what += " (the transport went on delivering after the fault)"
		}
		out.Violate("C05:"+sig, what, map[string]interface{}{"exec": ex, "cut": cut, "fault": faultNames[kind], "transport_resumes_after_fault": resumes, "write_side": []string{"healthy", "fails with io.ErrClosedPipe", "fails with a timeout", "healthy"}[writeBroken], "stream": st.Summary(), "bytes": core.Trunc(st.Bytes, 900), "lower": lower, "upper": upper, "message_ends": ends})
		return false
	}
	j := 0
	var termErr error
	failedInNextReader := false
	if ex.Mode == 2 {
		// the whole stream through JoinMessages: complete messages each followed by the
		// terminator, possibly the beginning of one more message, then an error that is
		// not io.EOF (a clean end is exactly the silent truncation the property forbids)
		const term = "\x00\x01<END>\x02"
		jr := ws.JoinMessages(c, term)
		var all []byte
		buf := make([]byte, r.Range(1, 600))
		var jerr error
		for spins := 0; ; spins++ {
			n, e := jr.Read(buf)
			all = append(all, buf[:n]...)
			if e != nil {
				jerr = e
				break
			}
			if spins > 1<<20 {
				return fail("join-no-error", "the JoinMessages reader never reported an error")
			}
		}
		out.Count("streams_read_through_joinmessages", 1)
		pos := 0
		for j < len(exp) && bytes.HasPrefix(all[pos:], append(append([]byte(nil), exp[j].Data...), term...)) {
			pos += len(exp[j].Data) + len(term)
			j++
		}
		rest := all[pos:]
		if j > upper && !(j == upper+1 && exp[j-1].BFinal) {
			return fail("partial-message-reported-complete", fmt.Sprintf("JoinMessages delivered message %d with its terminator although only %d bytes of the stream arrived and it ends at offset %d", j-1, cut, endOr(ends, j-1)))
		}
		if j > upper {
			out.Count("complete_by_deflate_bfinal_before_last_frame_bytes", 1)
			upper = j
		}
		if j == len(exp) && len(rest) > 0 {
			return fail("extra-message", "JoinMessages delivered bytes beyond the messages the stream holds")
		}
		if j < len(exp) && !ex.Comp && !bytes.HasPrefix(append(append([]byte(nil), exp[j].Data...), term...), rest) {
			return fail("partial-message-garbage", fmt.Sprintf("after %d complete messages JoinMessages delivered %d bytes that are not a prefix of the next message", j, len(rest)))
		}
		if j < len(exp) && !ex.Comp && len(rest) > len(exp[j].Data) {
			return fail("partial-message-reported-complete", fmt.Sprintf("JoinMessages started the terminator of message %d which had not arrived completely", j))
		}
		// io.EOF is a legitimate end when the transport ended between messages; it is the
		// forbidden silent truncation when bytes of a further message had arrived
		if jerr == io.EOF && j < len(exp) && st.FrameOff[exp[j].First] < cut {
			return fail("join-reports-clean-end-after-transport-fault", fmt.Sprintf("the JoinMessages reader ended with io.EOF after %d complete messages although %d bytes of message %d had arrived when the transport failed (%s)", j, cut-st.FrameOff[exp[j].First], j, faultNames[kind]))
		}
		out.Count("messages_reported_complete", int64(j))
		termErr = jerr
	}
	for ex.Mode != 2 {
		if j > len(exp) {
			return fail("extra-message", "more messages reported than the stream holds")
		}
		var typ int
		var data []byte
		var err error
		complete := false
		if ex.Mode == 0 {
			typ, data, err = c.ReadMessage()
			if err != nil && data == nil {
				termErr = err
				// either NextReader failed, or the message read failed with no bytes
				break
			}
			complete = err == nil
		} else {
			var nr io.Reader
			typ, nr, err = c.NextReader()
			if err != nil {
				termErr = err
				failedInNextReader = true
				break
			}
			buf := make([]byte, r.Range(1, 600))
			for {
				n, e := nr.Read(buf)
				data = append(data, buf[:n]...)
				if e == io.EOF {
					complete = true
					break
				}
				if e != nil {
					err = e
					// the same reader tried again: still an error, never a clean end
					if n2, e2 := nr.Read(buf); n2 != 0 || e2 == nil || e2 == io.EOF {
						return fail("partial-message-eof", fmt.Sprintf("after failing with %v the reader of partial message %d returned (%d,%v) on the next Read", e, j, n2, e2))
					}
					break
				}
			}
		}
		if complete && j >= upper && j < len(exp) && exp[j].BFinal && typ == exp[j].Kind && bytes.Equal(data, exp[j].Data) {
			// DEFLATE end-of-stream (BFINAL block) reached before the last,
			// contentless payload bytes arrived: the whole message content was
			// received. Not judged (DESIGN 5).
			out.Count("complete_by_deflate_bfinal_before_last_frame_bytes", 1)
			j++
			upper = j
			continue
		}
		if complete {
			if j >= upper {
				sig := "partial-message-reported-complete"
				if kind == 1 && j < len(exp) {
					// does the cut sit exactly at the end of a non-final frame of message j?
					for fi := exp[j].First; fi < exp[j].Last; fi++ {
						if st.FrameOff[fi+1] == cut {
							sig = "eof-with-last-bytes-of-nonfinal-frame-reported-as-end-of-message"
						}
					}
				}
				return fail(sig, fmt.Sprintf("message %d reported complete (%d bytes) although only %d bytes of the stream arrived and it ends at offset %d", j, len(data), cut, endOr(ends, j)))
			}
			if typ != exp[j].Kind || !bytes.Equal(data, exp[j].Data) {
				return fail("complete-message-differs", fmt.Sprintf("message %d reported complete but differs from what was sent (len %d vs %d, first difference %d)", j, len(data), len(exp[j].Data), diffAt(data, exp[j].Data)))
			}
			out.Count("messages_reported_complete", 1)
			j++
			continue
		}
		// a failed message read
		if err == nil || err == io.EOF {
			return fail("partial-message-eof", fmt.Sprintf("partial message %d ended with error %v", j, err))
		}
		if j < len(exp) && !ex.Comp && !bytes.HasPrefix(exp[j].Data, data) {
			return fail("partial-message-garbage", fmt.Sprintf("partial message %d delivered bytes that are not a prefix of the sent message", j))
		}
		out.Count("partial_messages_refused", 1)
		termErr = err
		break
	}
	if j < lower {
		return fail("arrived-message-not-reported", fmt.Sprintf("%d messages had fully arrived before the failing transport read but only %d were reported; error %v", lower, j, termErr))
	}
	if termErr == nil {
		return fail("no-error", "no error followed the messages")
	}
	// sticky: NextReader now fails, with one and the same error - also for an application that
	// moves its read deadline forward (or clears it) before trying again
	if cut%3 == 1 {
		if cut%2 == 1 {
			c.SetReadDeadline(time.Now().Add(time.Hour))
		} else {
			c.SetReadDeadline(time.Time{})
		}
		out.Count("retries_after_moving_the_read_deadline", 1)
	}
	_, _, e1 := c.NextReader()
	if e1 == nil {
		return fail("next-reader-after-failure", "NextReader succeeded after a transport failure")
	}
	for i := 0; i < 5; i++ {
		t, rdr, e2 := c.NextReader()
		if e2 != e1 || rdr != nil || t > 0 {
			return fail("error-not-sticky", fmt.Sprintf("NextReader call %d after the failure returned (%d,%v), earlier call returned %v", i+2, t, e2, e1))
		}
	}
	if cut%64 == 9 && ex.Mode == 1 {
		// "every later call": up to the documented limit (the 1000th failing NextReader call
		// panics on purpose). Failing calls so far: the first one if it was NextReader that
		// failed, plus the six above.
		n := 6
		if failedInNextReader {
			n++
		}
		for ; n < 999; n++ {
			if _, _, e2 := c.NextReader(); e2 != e1 {
				return fail("error-not-sticky", fmt.Sprintf("failing NextReader call %d returned %v, the first returned %v", n+1, e2, e1))
			}
		}
		out.Count("failed_connections_polled_up_to_the_documented_limit", 1)
	}
	return true
}

func endOr(ends []int, j int) int {
	if j < len(ends) {
		return ends[j]
	}
	return -1
}
