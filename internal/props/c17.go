package props

import (
	"bytes"
	"fmt"
	"sync"
	"time"

	ws "github.com/gorilla/websocket"

	"verif/internal/core"
	"verif/internal/gen"
	"verif/internal/wire"
	"verif/internal/xport"
)

func init() {
	core.Register(&core.Prop{
		ID:    "C17",
		Level: "exploration",
		Rule: "per generated frame stream S (<= ~300 bytes): server side, EVERY split k of S between the hijacked bufio.Reader (sizes 16,17,255,256,257,4096, pre-filled by one transport read of k bytes, over the same scripted conn) and the socket x Upgrader.ReadBufferSize {0,1,100,255,256,4096} through the real Upgrader.Upgrade; " +
			"client side, EVERY cut of '101 response + S' into two transport reads plus a drawn third cut, through the real Dialer.Dial; distinct = (stream hash, side, split, sizes); non-trivial = 0 < k < len(S)",
		Variants: core.PlainOnly,
		Cases: func(tier, variant string) int {
			if tier == "thorough" {
				return 400
			}
			return 64
		},
		Run:          runC17,
		BeatTimeoutS: 60,
		Required:     []string{"server_splits", "client_splits", "messages_delivered", "control_payloads_compared_at_the_end"},
		Assumptions: []string{
			"exhaustive over split points and the listed buffer sizes for each generated stream; streams are sampled",
			"the hijacked bufio.Reader wraps the same scripted conn and holds what one transport read returned, as with net/http",
		},
	})
}

var c17BrSizes = []int{16, 17, 255, 256, 257, 4096}
var c17RBS = []int{0, 1, 100, 255, 256, 4096}

func runC17(ctx *core.Ctx, out *core.Out) {
	r := ctx.R
	comp := r.Chance(1, 4)
	// --- server side: peer is a client => masked frames
	st := genStream(r, StreamOpts{FromClient: true, Comp: comp, MaxMsgs: 4, MaxSize: 120, Controls: true, Close: r.Bool()})
	for len(st.Bytes) > 420 {
		st = genStream(r, StreamOpts{FromClient: true, Comp: comp, MaxMsgs: 2, MaxSize: 80, Controls: true, Close: r.Bool()})
	}
	exp := st.DataEvents()
	sh := core.Hash(string(st.Bytes))
	fail := func(sig, what string, d map[string]interface{}) {
		d["stream"] = st.Summary()
		d["bytes"] = core.Trunc(st.Bytes, 500)
		out.Violate("C17:"+sig, what, d)
	}
	for k := 0; k <= len(st.Bytes); k++ {
		for _, bs := range c17BrSizes {
			for _, rbs := range c17RBS {
				out.EvalH(sh^uint64(k)<<40^uint64(bs)<<20^uint64(rbs)^1<<63, k > 0 && k < len(st.Bytes))
				out.Count("server_splits", 1)
				var chunks []xport.Chunk
				if k > 0 {
					chunks = append(chunks, xport.Chunk{Data: st.Bytes[:k]})
				}
				chunks = append(chunks, xport.Rechunk(st.Bytes[k:], r.Intn(xport.NChunkStyles), r)...)
				nc := xport.New(chunks)
				// one combination in 48: the client stays silent after S (reads block), as a
				// request/response client does; complete messages must still be delivered
				blocking := (k*36+ctx.Idx)%48 == 7
				nc.Block = blocking
				br := prefilledReader(nc, bs, k > 0)
				w := newFakeRW(nc, br, 4096)
				u := &ws.Upgrader{ReadBufferSize: rbs, EnableCompression: comp}
				req := validRequest(someKey)
				if comp {
					req.Header["Sec-Websocket-Extensions"] = []string{"permessage-deflate; server_no_context_takeover; client_no_context_takeover"}
				}
				c, err := u.Upgrade(w, req, nil)
				d := map[string]interface{}{"side": "server", "split": k, "hijacked_reader_size": bs, "read_buffer_size": rbs, "compression": comp}
				if err != nil {
					// the request is a valid opening handshake: bytes glued behind it must not make it fail
					fail("handshake-fails-with-early-bytes", fmt.Sprintf("Upgrade of a valid request failed (%v) with %d bytes of the client's frames already in the hijacked buffer", err, k), d)
					return
				}
				if blocking {
					if !c17ReadBlocking(out, c, nc, exp, st, d, fail) {
						return
					}
					continue
				}
				if !c17Read(out, c, exp, st, d, fail, r.Intn(2)) {
					return
				}
			}
		}
	}
	// --- tiny streams wholly (or almost wholly) inside the hijacked buffer, client silent
	// afterwards: the hand-over from the hijacked buffer to the socket must not wait
	// for bytes that will never come
	for _, psize := range []int{0, 1, 2, 5, 7, 20} {
		tiny := &Stream{}
		f := wire.Frame{Fin: true, Op: 1 + psize%2, Masked: true, Key: maskKey(r), Payload: r.Payload(gen.PText, psize)}
		tiny.Frames = []wire.Frame{f}
		tiny.Events = []Ev{{Kind: f.Op, Data: f.Payload}}
		if psize == 5 {
			pf := wire.Frame{Fin: true, Op: 9, Masked: true, Key: maskKey(r), Payload: []byte("p")}
			tiny.Frames = append(tiny.Frames, pf)
			tiny.Events = append(tiny.Events, Ev{Kind: 9, Data: pf.Payload, First: 1, Last: 1})
		}
		tiny.finish()
		texp := tiny.DataEvents()
		failT := func(sig, what string, d map[string]interface{}) {
			d["stream"] = tiny.Summary()
			d["bytes"] = core.Trunc(tiny.Bytes, 100)
			out.Violate("C17:"+sig, what, d)
		}
		for k := 0; k <= len(tiny.Bytes); k++ {
			for _, bs := range []int{16, 256, 4096} {
				for _, rbs := range []int{0, 1, 256, 4096} {
					out.EvalH(core.Hash(string(tiny.Bytes))^uint64(k)<<40^uint64(bs)<<20^uint64(rbs)^3<<62, k > 0)
					out.Count("server_splits", 1)
					var chunks []xport.Chunk
					if k > 0 {
						chunks = append(chunks, xport.Chunk{Data: tiny.Bytes[:k]})
					}
					if k < len(tiny.Bytes) {
						chunks = append(chunks, xport.Chunk{Data: tiny.Bytes[k:]})
					}
					nc := xport.New(chunks)
					nc.Block = true
					br := prefilledReader(nc, bs, k > 0)
					c, err := (&ws.Upgrader{ReadBufferSize: rbs}).Upgrade(newFakeRW(nc, br, 4096), validRequest(someKey), nil)
					if err != nil {
						out.Inconcl(fmt.Sprintf("set-up handshake failed: %v", err))
						continue
					}
					d := map[string]interface{}{"side": "server", "split": k, "hijacked_reader_size": bs, "read_buffer_size": rbs}
					if !c17ReadBlocking(out, c, nc, texp, tiny, d, failT) {
						return
					}
				}
			}
		}
	}
	// --- client side: peer is a server => unmasked frames
	st2 := genStream(r, StreamOpts{FromClient: false, Comp: comp, MaxMsgs: 4, MaxSize: 120, Controls: true, Close: r.Bool()})
	for len(st2.Bytes) > 420 {
		st2 = genStream(r, StreamOpts{FromClient: false, Comp: comp, MaxMsgs: 2, MaxSize: 80, Controls: true, Close: r.Bool()})
	}
	exp2 := st2.DataEvents()
	sh2 := core.Hash(string(st2.Bytes))
	fail2 := func(sig, what string, d map[string]interface{}) {
		d["stream"] = st2.Summary()
		d["bytes"] = core.Trunc(st2.Bytes, 500)
		out.Violate("C17:"+sig, what, d)
	}
	extra := ""
	if comp {
		extra = "Sec-WebSocket-Extensions: permessage-deflate; server_no_context_takeover; client_no_context_takeover\r\n"
	}
	for _, rbs := range []int{0, 1, 125, 300, 4096} {
		total := -1
		for p := 0; total < 0 || p <= total; p++ {
			p := p
			var cuts [2]int
			d := ws.Dialer{ReadBufferSize: rbs, EnableCompression: comp}
			c, _, err, _ := scriptedDial(&d, "ws://example.test/x", nil, func(req []byte) []xport.Chunk {
				all := append(good101(req, extra), st2.Bytes...)
				total = len(all)
				q := p + r.Intn(total-p+1)
				cuts = [2]int{p, q}
				var chs []xport.Chunk
				for _, seg := range [][]byte{all[:p], all[p:q], all[q:]} {
					if len(seg) > 0 {
						chs = append(chs, xport.Chunk{Data: seg})
					}
				}
				return chs
			})
			out.EvalH(sh2^uint64(p)<<40^uint64(rbs), true)
			out.Count("client_splits", 1)
			dd := map[string]interface{}{"side": "client", "cuts": cuts, "read_buffer_size": rbs, "compression": comp}
			if err != nil {
				fail2("handshake-fails-with-early-bytes", fmt.Sprintf("Dial failed (%v) although the reply is a valid 101; %d bytes followed it in the same stream", err, len(st2.Bytes)), dd)
				return
			}
			if !c17Read(out, c, exp2, st2, dd, fail2, r.Intn(2)) {
				return
			}
		}
	}
	if ctx.Idx%8 == 0 {
		out.Sample(map[string]interface{}{"server_stream": st.Summary(), "splits": len(st.Bytes) + 1, "reader_sizes": c17BrSizes, "read_buffer_sizes": c17RBS, "client_stream": st2.Summary()})
	}
}

func c17Read(out *core.Out, c *ws.Conn, exp []Ev, st *Stream, d map[string]interface{}, fail func(string, string, map[string]interface{}), mode int) bool {
	var lastErr error
	// control frames glued to the handshake are part of the stream: an application that keeps
	// the payload strings its handlers are given must find them unchanged at the end
	type kept struct {
		kind int
		s    string
	}
	var ctl []kept
	dp := c.PingHandler()
	c.SetPingHandler(func(s string) error { ctl = append(ctl, kept{9, s}); return dp(s) })
	c.SetPongHandler(func(s string) error { ctl = append(ctl, kept{10, s}); return nil })
	defer func() {
		var want []Ev
		for _, e := range st.Events {
			if e.Kind == 9 || e.Kind == 10 {
				want = append(want, e)
			}
		}
		if lastErr == nil || len(ctl) != len(want) {
			return // a lost frame is reported by the message checks
		}
		for i, k := range ctl {
			out.Count("control_payloads_compared_at_the_end", 1)
			if k.kind != want[i].Kind || k.s != string(want[i].Data) {
				fail("control-payload-changed", fmt.Sprintf("control frame %d (opcode %d): the payload string its handler was given reads %q at the end of the connection, the peer sent %q", i, want[i].Kind, k.s, want[i].Data), d)
				return
			}
		}
	}()
	if mode == 1 {
		// a generous read limit, and an application that looks at the underlying connection
		// between reads (both are plain accessors as far as the stream is concerned)
		// (limits of every magnitude relative to the read buffer, all above the largest message
		// of these streams: 120 bytes, at most 131 on the wire when compressed)
		lim := []int64{200, 230, 1000, 4000, 1 << 20}[len(st.Bytes)%5]
		c.SetReadLimit(lim)
		out.Count("read_limit_set_before_the_first_read", 1)
	}
	for i := 0; ; i++ {
		if mode == 1 {
			_ = c.NetConn()
			_ = c.UnderlyingConn()
			_ = c.LocalAddr()
		}
		t, p, err := c.ReadMessage()
		if err != nil {
			lastErr = err
			if i != len(exp) {
				fail("message-lost", fmt.Sprintf("only %d of %d messages were delivered after the handshake; then %v", i, len(exp), err), d)
				return false
			}
			break
		}
		if i >= len(exp) {
			fail("extra-message", "more messages delivered than the stream holds", d)
			return false
		}
		if t != exp[i].Kind || !bytes.Equal(p, exp[i].Data) {
			fail("message-corrupted", fmt.Sprintf("message %d after the handshake differs from what the peer sent (len %d vs %d, first difference %d)", i, len(p), len(exp[i].Data), diffAt(p, exp[i].Data)), d)
			return false
		}
		out.Count("messages_delivered", 1)
	}
	if n := len(st.Events); n > 0 && st.Events[n-1].Kind == 8 {
		if !isCloseErr(lastErr, st.Events[n-1].Code, st.Events[n-1].Reason) {
			fail("close-lost", fmt.Sprintf("stream ends with close %d but reads ended with %v", st.Events[n-1].Code, lastErr), d)
			return false
		}
	}
	return true
}

// c17ReadBlocking: the transport blocks once S is consumed (the client waits for
// an answer). Every message of S must be delivered without any further byte.
func c17ReadBlocking(out *core.Out, c *ws.Conn, nc *xport.Conn, exp []Ev, st *Stream, d map[string]interface{}, fail func(string, string, map[string]interface{})) bool {
	var mu sync.Mutex
	var got []Got
	done := make(chan struct{})
	go func() {
		defer close(done)
		for {
			t, p, err := c.ReadMessage()
			if err != nil {
				return
			}
			mu.Lock()
			got = append(got, Got{Type: t, Data: p})
			mu.Unlock()
		}
	}()
	ok := false
	limit := time.Now().Add(10 * time.Second)
wait:
	for time.Now().Before(limit) {
		mu.Lock()
		n := len(got)
		mu.Unlock()
		if n >= len(exp) {
			ok = true
			break
		}
		select {
		case <-done:
			break wait
		default:
			time.Sleep(200 * time.Microsecond)
		}
	}
	consumed := nc.Consumed()
	mu.Lock()
	deliveredWhileOpen := len(got) // what the application had before the transport was touched again
	mu.Unlock()
	nc.Close()
	<-done
	out.Count("blocking_client_cases", 1)
	d["client_silent_after_stream"] = true
	mu.Lock()
	defer mu.Unlock()
	if !ok && deliveredWhileOpen < len(exp) {
		fail("message-withheld-until-more-bytes-arrive", fmt.Sprintf("the client sent %d complete messages and then waits; only %d were delivered within 10 s although %d of %d bytes had been handed to the library (%d were delivered once the transport was closed)", len(exp), deliveredWhileOpen, consumed, len(st.Bytes), len(got)), d)
		return false
	}
	if len(got) < len(exp) {
		fail("message-lost", fmt.Sprintf("only %d of %d messages were delivered", len(got), len(exp)), d)
		return false
	}
	for i := range exp {
		if got[i].Type != exp[i].Kind || !bytes.Equal(got[i].Data, exp[i].Data) {
			fail("message-corrupted", fmt.Sprintf("message %d after the handshake differs from what the peer sent", i), d)
			return false
		}
		out.Count("messages_delivered", 1)
	}
	return true
}
