package props

import (
	"bytes"
	"fmt"

	ws "github.com/gorilla/websocket"

	"verif/internal/core"
	"verif/internal/xport"
)

func init() {
	core.Register(&core.Prop{
		ID:    "C17",
		Level: "exploration",
		Rule: "per generated frame stream S (<= ~300 bytes): server side, EVERY split k of S between the hijacked bufio.Reader (sizes 16,17,255,256,257,4096, pre-filled by one transport read of k bytes, over the same scripted conn) and the socket x Upgrader.ReadBufferSize {0,1,100,255,256,4096} through the real Upgrader.Upgrade; " +
			"client side, EVERY cut of '101 response + S' into two transport reads plus a drawn third cut, through the real Dialer.Dial; distinct = (stream hash, side, split, sizes); non-trivial = 0 < k < len(S)",
		Variants: core.PlainOnly,
		Cases: func(tier, variant string) int {
			if tier == "thorough" {
				return 400
			}
			return 64
		},
		Run:      runC17,
		Required: []string{"server_splits", "client_splits", "messages_delivered"},
		Assumptions: []string{
			"exhaustive over split points and the listed buffer sizes for each generated stream; streams are sampled",
			"the hijacked bufio.Reader wraps the same scripted conn and holds what one transport read returned, as with net/http",
		},
	})
}

var c17BrSizes = []int{16, 17, 255, 256, 257, 4096}
var c17RBS = []int{0, 1, 100, 255, 256, 4096}

func runC17(ctx *core.Ctx, out *core.Out) {
	r := ctx.R
	comp := r.Chance(1, 4)
	// --- server side: peer is a client => masked frames
	st := genStream(r, StreamOpts{FromClient: true, Comp: comp, MaxMsgs: 4, MaxSize: 120, Controls: true, Close: r.Bool()})
	for len(st.Bytes) > 420 {
		st = genStream(r, StreamOpts{FromClient: true, Comp: comp, MaxMsgs: 2, MaxSize: 80, Controls: true, Close: r.Bool()})
	}
	exp := st.DataEvents()
	sh := core.Hash(string(st.Bytes))
	fail := func(sig, what string, d map[string]interface{}) {
		d["stream"] = st.Summary()
		d["bytes"] = core.Trunc(st.Bytes, 500)
		out.Violate("C17:"+sig, what, d)
	}
	for k := 0; k <= len(st.Bytes); k++ {
		for _, bs := range c17BrSizes {
			for _, rbs := range c17RBS {
				out.EvalH(sh^uint64(k)<<40^uint64(bs)<<20^uint64(rbs)^1<<63, k > 0 && k < len(st.Bytes))
				out.Count("server_splits", 1)
				var chunks []xport.Chunk
				if k > 0 {
					chunks = append(chunks, xport.Chunk{Data: st.Bytes[:k]})
				}
				chunks = append(chunks, xport.Rechunk(st.Bytes[k:], r.Intn(xport.NChunkStyles), r)...)
				nc := xport.New(chunks)
				br := prefilledReader(nc, bs, k > 0)
				w := newFakeRW(nc, br, 4096)
				u := &ws.Upgrader{ReadBufferSize: rbs, EnableCompression: comp}
				req := validRequest(someKey)
				if comp {
					req.Header["Sec-Websocket-Extensions"] = []string{"permessage-deflate; server_no_context_takeover; client_no_context_takeover"}
				}
				c, err := u.Upgrade(w, req, nil)
				d := map[string]interface{}{"side": "server", "split": k, "hijacked_reader_size": bs, "read_buffer_size": rbs, "compression": comp}
				if err != nil {
					out.Inconcl(fmt.Sprintf("set-up handshake failed: %v", err))
					continue
				}
				if !c17Read(out, c, exp, st, d, fail, r.Intn(2)) {
					return
				}
			}
		}
	}
	// --- client side: peer is a server => unmasked frames
	st2 := genStream(r, StreamOpts{FromClient: false, Comp: comp, MaxMsgs: 4, MaxSize: 120, Controls: true, Close: r.Bool()})
	for len(st2.Bytes) > 420 {
		st2 = genStream(r, StreamOpts{FromClient: false, Comp: comp, MaxMsgs: 2, MaxSize: 80, Controls: true, Close: r.Bool()})
	}
	exp2 := st2.DataEvents()
	sh2 := core.Hash(string(st2.Bytes))
	fail2 := func(sig, what string, d map[string]interface{}) {
		d["stream"] = st2.Summary()
		d["bytes"] = core.Trunc(st2.Bytes, 500)
		out.Violate("C17:"+sig, what, d)
	}
	extra := ""
	if comp {
		extra = "Sec-WebSocket-Extensions: permessage-deflate; server_no_context_takeover; client_no_context_takeover\r\n"
	}
	for _, rbs := range []int{0, 1, 125, 300, 4096} {
		total := -1
		for p := 0; total < 0 || p <= total; p++ {
			p := p
			var cuts [2]int
			d := ws.Dialer{ReadBufferSize: rbs, EnableCompression: comp}
			c, _, err, _ := scriptedDial(&d, "ws://example.test/x", nil, func(req []byte) []xport.Chunk {
				all := append(good101(req, extra), st2.Bytes...)
				total = len(all)
				q := p + r.Intn(total-p+1)
				cuts = [2]int{p, q}
				var chs []xport.Chunk
				for _, seg := range [][]byte{all[:p], all[p:q], all[q:]} {
					if len(seg) > 0 {
						chs = append(chs, xport.Chunk{Data: seg})
					}
				}
				return chs
			})
			out.EvalH(sh2^uint64(p)<<40^uint64(rbs), true)
			out.Count("client_splits", 1)
			dd := map[string]interface{}{"side": "client", "cuts": cuts, "read_buffer_size": rbs, "compression": comp}
			if err != nil {
				out.Inconcl(fmt.Sprintf("set-up dial failed: %v", err))
				continue
			}
			if !c17Read(out, c, exp2, st2, dd, fail2, r.Intn(2)) {
				return
			}
		}
	}
	if ctx.Idx%8 == 0 {
		out.Sample(map[string]interface{}{"server_stream": st.Summary(), "splits": len(st.Bytes) + 1, "reader_sizes": c17BrSizes, "read_buffer_sizes": c17RBS, "client_stream": st2.Summary()})
	}
}

func c17Read(out *core.Out, c *ws.Conn, exp []Ev, st *Stream, d map[string]interface{}, fail func(string, string, map[string]interface{}), mode int) bool {
	var lastErr error
	for i := 0; ; i++ {
		t, p, err := c.ReadMessage()
		if err != nil {
			lastErr = err
			if i != len(exp) {
				fail("message-lost", fmt.Sprintf("only %d of %d messages were delivered after the handshake; then %v", i, len(exp), err), d)
				return false
			}
			break
		}
		if i >= len(exp) {
			fail("extra-message", "more messages delivered than the stream holds", d)
			return false
		}
		if t != exp[i].Kind || !bytes.Equal(p, exp[i].Data) {
			fail("message-corrupted", fmt.Sprintf("message %d after the handshake differs from what the peer sent (len %d vs %d, first difference %d)", i, len(p), len(exp[i].Data), diffAt(p, exp[i].Data)), d)
			return false
		}
		out.Count("messages_delivered", 1)
	}
	if n := len(st.Events); n > 0 && st.Events[n-1].Kind == 8 {
		if !isCloseErr(lastErr, st.Events[n-1].Code, st.Events[n-1].Reason) {
			fail("close-lost", fmt.Sprintf("stream ends with close %d but reads ended with %v", st.Events[n-1].Code, lastErr), d)
			return false
		}
	}
	return true
}
