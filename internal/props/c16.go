package props

import (
	"bufio"
	"bytes"
	"context"
	"crypto/tls"
	"fmt"
	"net"
	"net/http"
	"net/url"
	"strings"
	"time"

	ws "github.com/gorilla/websocket"

	"verif/internal/core"
	"verif/internal/xport"
)

func init() {
	core.Register(&core.Prop{
		ID:    "C16",
		Level: "fault_enumeration",
		Rule: "for each configuration in {Dial direct, Dial via HTTP CONNECT proxy, Dial wss (TLS) direct, Dial wss through a CONNECT tunnel, Upgrade} x {no timeout, HandshakeTimeout, context deadline, both}: a clean run records the transport operations (Read, Write, SetDeadline, SetReadDeadline, SetWriteDeadline, Close), then EVERY operation index k x {error, timeout, EOF} is injected; " +
			"plus a blocking family: the peer stops answering at each phase (proxy reply, TLS handshake, WebSocket reply) under a 50 ms timeout; plus negative replies (non-200 proxy, non-101 server, wrong Accept, untrusted certificate); " +
			"distinct = (configuration, k, fault kind); non-trivial = the fault fired after at least one transport operation had succeeded",
		Variants: core.PlainOnly,
		Cases: func(tier, variant string) int {
			if tier == "thorough" {
				return len(c16Cfgs) * 40
			}
			return len(c16Cfgs) * 24
		},
		Run:          runC16,
		BeatTimeoutS: 90,
		Exhaustive:   true,
		Required:     []string{"faults_injected", "failures_checked_closed", "successes_checked_open", "deadline_ops_checked", "blocking_scenarios", "context_cancellations", "handshakes_finishing_just_after_the_limit"},
		CaseTimeoutS: 300,
		Assumptions: []string{
			"exhaustive over operation index x fault kind for every listed configuration; TLS configurations run over an in-memory pipe against an in-process TLS peer, so the number of raw operations varies slightly between runs",
			"the TLS handshake performed inside the dial function runs under the context rather than under a connection deadline; it is judged by the blocking form",
		},
	})
}

type c16Cfg struct {
	Side    string `json:"side"` // dial | upgrade (dial hooks: NetDialContext, NetDial, NetDialTLSContext)
	Proxy   bool   `json:"proxy"`
	TLS     bool   `json:"tls"`
	Timeout int    `json:"timeout"` // 0 none, 1 HandshakeTimeout, 2 context deadline, 3 both
	RB      int    `json:"rb"`
	Hook    int    `json:"dial_hook"` // 0 NetDialContext, 1 NetDial, 2 NetDialTLSContext (does the TLS handshake itself)
}

var c16Cfgs []c16Cfg

func init() {
	for to := 0; to < 4; to++ {
		for _, p := range []bool{false, true} {
			for _, t := range []bool{false, true} {
				c16Cfgs = append(c16Cfgs, c16Cfg{Side: "dial", Proxy: p, TLS: t, Timeout: to})
			}
		}
		c16Cfgs = append(c16Cfgs, c16Cfg{Side: "dial", TLS: true, Timeout: to, Hook: 2}, c16Cfg{Side: "dial", TLS: to%2 == 0, Proxy: to >= 2, Timeout: to, Hook: 1})
		c16Cfgs = append(c16Cfgs, c16Cfg{Side: "upgrade", Timeout: to})
	}
}

type c16Run struct {
	conn     *ws.Conn
	err      error
	nc       *xport.Conn
	peer     *xport.Conn
	deadline time.Time // context deadline given (zero if none)
	hsTO     time.Duration
	returned time.Time
	hijacks  int
	hookOps  int // transport operations made inside a NetDialTLSContext hook (its own TLS handshake)
}

const c16Host = "tls.example"

// tlsPeer serves one connection on b: optional CONNECT, TLS, WebSocket reply.
// stopAt: 0 never stop, 1 do not answer CONNECT, 2 do not answer ClientHello, 3 do not answer the WebSocket request.
func c16Peer(b *xport.Conn, proxy, useTLS bool, stopAt int, negative string) {
	go func() {
		br := bufio.NewReader(b)
		var conn net.Conn = b
		if proxy {
			req, err := http.ReadRequest(br)
			if err != nil {
				return
			}
			_ = req
			if stopAt == 1 {
				return
			}
			switch negative {
			case "proxy-refuses":
				b.Write([]byte("HTTP/1.1 407 Proxy Authentication Required\r\nContent-Length: 0\r\n\r\n"))
				return
			case "proxy-refuses-no-reason":
				b.Write([]byte("HTTP/1.1 403\r\n\r\n"))
				return
			case "proxy-refuses-body":
				b.Write([]byte("HTTP/1.1 502 Bad Gateway\r\nContent-Length: 5\r\n\r\nsorry"))
				return
			case "proxy-refuses-body-withheld":
				// the head announces a body that never comes; the connection stays open
				b.Write([]byte("HTTP/1.1 407 Proxy Authentication Required\r\nContent-Length: 64\r\n\r\nsorry"))
				return
			case "proxy-malformed":
				b.Write([]byte("garbage\r\n\r\n"))
				return
			}
			b.Write([]byte("HTTP/1.1 200 Connection established\r\n\r\n"))
		}
		if useTLS {
			if stopAt == 2 {
				return
			}
			pk := getPKI()
			cert := pk.leaf(c16Host)
			if negative == "untrusted-cert" {
				cert = pk.otherCA.leaf(c16Host)
			}
			if negative == "wrong-host-cert" {
				cert = pk.leaf("other.example")
			}
			tc := tls.Server(&bufConn{Conn: b, r: br}, &tls.Config{Certificates: []tls.Certificate{cert}})
			if err := tc.Handshake(); err != nil {
				return
			}
			conn = tc
			br = bufio.NewReader(tc)
		}
		req, err := http.ReadRequest(br)
		if err != nil {
			return
		}
		if stopAt == 3 {
			return
		}
		key := req.Header.Get("Sec-Websocket-Key")
		switch negative {
		case "server-404":
			conn.Write([]byte("HTTP/1.1 404 Not Found\r\nContent-Length: 3\r\n\r\nno\n"))
		case "server-malformed":
			conn.Write([]byte("HTTP/1.1 101\r\nUpgrade websocket\r\n\r\n"))
		case "bad-extension-parameters":
			conn.Write([]byte("HTTP/1.1 101 Switching Protocols\r\nUpgrade: websocket\r\nConnection: Upgrade\r\nSec-WebSocket-Accept: " + acceptDigest(key) + "\r\nSec-WebSocket-Extensions: permessage-deflate; server_no_context_takeover\r\n\r\n"))
		case "wrong-accept":
			conn.Write([]byte("HTTP/1.1 101 Switching Protocols\r\nUpgrade: websocket\r\nConnection: Upgrade\r\nSec-WebSocket-Accept: AAAAAAAAAAAAAAAAAAAAAAAAAAA=\r\n\r\n"))
		default:
			conn.Write([]byte("HTTP/1.1 101 Switching Protocols\r\nUpgrade: websocket\r\nConnection: Upgrade\r\nSec-WebSocket-Accept: " + acceptDigest(key) + "\r\n\r\n"))
		}
	}()
}

// bufConn reads through a bufio.Reader that may already hold bytes.
type bufConn struct {
	net.Conn
	r *bufio.Reader
}

func (c *bufConn) Read(p []byte) (int, error) { return c.r.Read(p) }

func c16Dial(cfg c16Cfg, faultAt int, fk xport.FaultKind, stopAt int, negative string, shortTO bool) *c16Run {
	return c16DialC(cfg, faultAt, fk, stopAt, negative, shortTO, -1)
}

// c16DialC: cancelAt >= 0 cancels the caller's context when transport operation cancelAt is about
// to run, -2 inside the dial hook just before it returns the connection, -1 never.
func c16DialC(cfg c16Cfg, faultAt int, fk xport.FaultKind, stopAt int, negative string, shortTO bool, cancelAt int) *c16Run {
	run := &c16Run{}
	a, b := xport.NewPipe()
	run.nc, run.peer = a, b
	if faultAt >= 0 {
		a.FaultAt = map[int]xport.FaultKind{faultAt: fk}
	}
	a.ClearDawdle = c16SlowClear
	a.LenientDeadlines = c16SlowClear > 0
	c16Peer(b, cfg.Proxy, cfg.TLS, stopAt, negative)
	d := &ws.Dialer{ReadBufferSize: cfg.RB}
	cancelAll := func() {}
	inHook := func() {
		if cancelAt == -2 {
			cancelAll()
		}
	}
	switch cfg.Hook {
	case 1:
		d.NetDial = func(network, addr string) (net.Conn, error) { inHook(); return a, nil }
	case 2:
		d.NetDialTLSContext = func(ctx context.Context, network, addr string) (net.Conn, error) {
			tc := tls.Client(a, &tls.Config{RootCAs: getPKI().pool, ServerName: c16Host})
			if err := tc.HandshakeContext(ctx); err != nil {
				a.Close()
				return nil, err
			}
			run.hookOps = len(a.Ops())
			inHook()
			return tc, nil
		}
	default:
		d.NetDialContext = func(ctx context.Context, network, addr string) (net.Conn, error) { inHook(); return a, nil }
	}
	if cfg.Proxy {
		pu, _ := url.Parse("http://proxy.example:3128")
		d.Proxy = func(*http.Request) (*url.URL, error) { return pu, nil }
	}
	if cfg.TLS {
		d.TLSClientConfig = &tls.Config{RootCAs: getPKI().pool}
		if negative == "verify-callback-wraps-context-error" {
			// the application's own verification step fails with an error that wraps a context
			// error (say, its revocation lookup timed out); the dial's context is still alive
			d.TLSClientConfig.VerifyConnection = func(tls.ConnectionState) error {
				return fmt.Errorf("revocation check: %w", context.DeadlineExceeded)
			}
		}
	}
	long := time.Hour
	if shortTO {
		long = 50 * time.Millisecond
	}
	ctx := context.Background()
	if cfg.Timeout == 1 || cfg.Timeout == 3 {
		d.HandshakeTimeout = long
		run.hsTO = long
	}
	if cfg.Timeout >= 2 {
		ctxLong := long
		if cfg.Timeout == 3 && !shortTO {
			// both configured, with different magnitudes: the earlier one governs
			ctxLong = []time.Duration{3 * time.Hour, 20 * time.Minute}[cfg.RB%2]
		}
		run.deadline = time.Now().Add(ctxLong)
		var cancel func()
		ctx, cancel = context.WithDeadline(ctx, run.deadline)
		defer cancel()
	}
	if cancelAt != -1 {
		var cancel func()
		ctx, cancel = context.WithCancel(ctx)
		defer cancel()
		cancelAll = cancel
		a.OnCounted = func(i int) {
			if i == cancelAt {
				cancel()
			}
		}
	}
	scheme := "ws"
	if cfg.TLS {
		scheme = "wss"
	}
	done := make(chan struct{})
	go func() {
		run.conn, _, run.err = d.DialContext(ctx, scheme+"://"+c16Host+"/x", nil)
		run.returned = time.Now()
		close(done)
	}()
	select {
	case <-done:
	case <-time.After(30 * time.Second):
		run.err = errStillBlocked
		a.Close()
		b.Close()
		<-done
		run.err = errStillBlocked
		return run
	}
	return run
}

// c16SlowClear, when non-zero, makes the next c16Dial's transport take that long to clear a deadline.
var c16SlowClear time.Duration

var errStillBlocked = fmt.Errorf("verif: Dial still blocked after 30 s")

func c16Upgrade(cfg c16Cfg, faultAt int, fk xport.FaultKind) *c16Run {
	run := &c16Run{}
	nc := xport.New(nil)
	run.nc = nc
	if faultAt >= 0 {
		nc.FaultAt = map[int]xport.FaultKind{faultAt: fk}
	}
	w := newFakeRW(nc, nil, 4096)
	u := &ws.Upgrader{ReadBufferSize: cfg.RB}
	if cfg.Timeout == 1 || cfg.Timeout == 3 {
		u.HandshakeTimeout = time.Hour
		run.hsTO = time.Hour
	}
	run.conn, run.err = u.Upgrade(w, validRequest(someKey), http.Header{"X-App": {"1"}})
	run.returned = time.Now()
	run.hijacks = w.hijacks
	return run
}

func runC16(ctx *core.Ctx, out *core.Out) {
	ci := ctx.Idx % len(c16Cfgs)
	round := ctx.Idx / len(c16Cfgs)
	cfg := c16Cfgs[ci]
	cfg.RB = []int{0, 1, 300, 4096}[round%4]
	exec := func(faultAt int, fk xport.FaultKind) *c16Run {
		if cfg.Side == "upgrade" {
			return c16Upgrade(cfg, faultAt, fk)
		}
		return c16Dial(cfg, faultAt, fk, 0, "", false)
	}
	fail := func(sig, what string, run *c16Run, extra map[string]interface{}) {
		d := map[string]interface{}{"config": cfg}
		if run != nil && run.nc != nil {
			d["transport_ops"] = opsDesc16(run.nc.Ops())
		}
		for k, v := range extra {
			d[k] = v
		}
		out.Violate("C16:"+sig, what, d)
	}
	judge := func(run *c16Run, what string, extra map[string]interface{}) bool {
		if run.err == errStillBlocked {
			fail("handshake-blocks", what+": the handshake is still blocked 30 s later", run, extra)
			return false
		}
		if (run.conn == nil) != (run.err != nil) {
			fail("conn-and-error", fmt.Sprintf("%s: returned conn=%v together with err=%v", what, run.conn != nil, run.err), run, extra)
			return false
		}
		if run.conn == nil {
			out.Count("failures_checked_closed", 1)
			if cfg.Side == "upgrade" && run.hijacks == 0 {
				if len(run.nc.Ops()) != 0 {
					fail("touched-before-hijack", what+": the connection was used although it was never hijacked", run, extra)
					return false
				}
				return true
			}
			if !run.nc.Closed() {
				fail("connection-leaked", fmt.Sprintf("%s: the handshake failed (%v) but the network connection was not closed", what, run.err), run, extra)
				return false
			}
			return true
		}
		out.Count("successes_checked_open", 1)
		if run.nc.Closed() {
			fail("closed-on-success", what+": the handshake succeeded but the network connection was closed", run, extra)
			return false
		}
		rd, wd := run.nc.Deadlines()
		if !rd.IsZero() || !wd.IsZero() {
			fail("deadline-left-armed", fmt.Sprintf("%s: after a successful handshake a deadline is still armed (read %v, write %v)", what, !rd.IsZero(), !wd.IsZero()), run, extra)
			return false
		}
		return true
	}
	cleanup := func(run *c16Run) {
		if run.conn != nil {
			run.conn.Close()
		}
		run.nc.Close()
		if run.peer != nil {
			run.peer.Close()
		}
	}

	// ---- clean run
	clean := exec(-1, 0)
	out.Eval(fmt.Sprintf("%s|clean|%d", core.J(cfg), round), true)
	if !judge(clean, "fault-free run", nil) {
		cleanup(clean)
		return
	}
	if clean.conn == nil {
		fail("clean-run-failed", fmt.Sprintf("the fault-free handshake failed: %v", clean.err), clean, nil)
		cleanup(clean)
		return
	}
	ops := clean.nc.Ops()
	// deadline coverage
	if cfg.Timeout != 0 && cfg.Side == "dial" {
		var rdl, wdl time.Time
		seenSet := false
		for i, op := range ops {
			switch op.Kind {
			case xport.OpSetDeadline:
				rdl, wdl, seenSet = op.T, op.T, true
			case xport.OpSetReadDeadline:
				rdl, seenSet = op.T, true
			case xport.OpSetWriteDeadline:
				wdl, seenSet = op.T, true
			case xport.OpRead, xport.OpWrite:
				if !seenSet {
					if cfg.TLS && !cfg.Proxy && (cfg.Hook != 2 || i < clean.hookOps) {
						continue // TLS handshake inside the dial function: under the context, see blocking family
					}
					fail("io-before-deadline", fmt.Sprintf("transport operation %d (%s) happens before any deadline is armed although a handshake timeout/deadline is configured", i, op.Kind), clean, nil)
					cleanup(clean)
					return
				}
				dl := rdl
				if op.Kind == xport.OpWrite {
					dl = wdl
				}
				bound := clean.returned.Add(clean.hsTO)
				if !clean.deadline.IsZero() && (clean.hsTO == 0 || clean.deadline.Before(bound)) {
					bound = clean.deadline
				}
				out.Count("deadline_ops_checked", 1)
				if dl.IsZero() || dl.After(bound) {
					fail("io-without-handshake-deadline", fmt.Sprintf("transport operation %d (%s) runs under deadline %v; the configured limit is %v", i, op.Kind, dl, bound), clean, nil)
					cleanup(clean)
					return
				}
			}
		}
	} else {
		out.Count("deadline_ops_checked", 0)
	}
	cleanup(clean)

	// ---- every operation index x fault kind
	n := len(ops) + 2
	for k := 0; k < n; k++ {
		for _, fk := range []xport.FaultKind{xport.FaultErr, xport.FaultTimeout, xport.FaultEOF} {
			run := exec(k, fk)
			if run.nc.FaultsHit > 0 {
				out.Count("faults_injected", 1)
			}
			out.Eval(fmt.Sprintf("%s|%d|%d|%d", core.J(cfg), k, fk, round), k > 0 && run.nc.FaultsHit > 0)
			ok := judge(run, fmt.Sprintf("fault %s at transport operation %d", fk, k), map[string]interface{}{"fault_at_op": k, "fault": fk.String()})
			cleanup(run)
			if !ok {
				return
			}
		}
	}

	// ---- the caller gives up: its context is cancelled at every point of the handshake
	// (inside the dial hook, then before each transport operation). Whether Dial still
	// succeeds is its own business; a failure must leave the connection closed.
	if cfg.Side == "dial" {
		for k := -2; k < len(ops); k++ {
			if k == -1 {
				continue
			}
			run := c16DialC(cfg, -1, 0, 0, "", false, k)
			out.Eval(fmt.Sprintf("%s|cancel|%d|%d", core.J(cfg), k, round), true)
			out.Count("context_cancellations", 1)
			ok := judge(run, fmt.Sprintf("context cancelled at transport operation %d", k), map[string]interface{}{"context_cancelled_at_op": k})
			cleanup(run)
			if !ok {
				return
			}
		}
	}

	// ---- negative replies and blocking peers (dial only)
	if cfg.Side != "dial" {
		out.Count("blocking_scenarios", 0)
		// a refused request: never hijacked, connection untouched
		for i, mut := range []func(*http.Request){
			func(r *http.Request) { r.Header.Del("Upgrade") },
			func(r *http.Request) { r.Header.Set("Sec-Websocket-Version", "8") },
			func(r *http.Request) { r.Header.Set("Origin", "http://evil.example") },
			func(r *http.Request) { r.Method = "POST" },
		} {
			nc := xport.New(nil)
			w := newFakeRW(nc, nil, 4096)
			req := validRequest(someKey)
			mut(req)
			u := &ws.Upgrader{HandshakeTimeout: clean.hsTO}
			c, err := u.Upgrade(w, req, nil)
			run := &c16Run{conn: c, err: err, nc: nc, hijacks: w.hijacks}
			out.Eval(fmt.Sprintf("%s|refused|%d|%d", core.J(cfg), i, round), true)
			if c != nil || w.hijacks != 0 {
				fail("hijacked-refused-request", fmt.Sprintf("refused request variant %d: conn=%v hijacks=%d", i, c != nil, w.hijacks), run, nil)
				return
			}
			if !judge(run, "refused request", nil) {
				return
			}
		}
		return
	}
	for _, neg := range []string{"proxy-refuses", "proxy-refuses-no-reason", "proxy-refuses-body", "proxy-refuses-body-withheld", "proxy-malformed", "untrusted-cert", "wrong-host-cert", "verify-callback-wraps-context-error", "server-404", "wrong-accept", "server-malformed", "bad-extension-parameters"} {
		if (strings.HasPrefix(neg, "proxy-") && !cfg.Proxy) || ((strings.HasSuffix(neg, "-cert") || strings.HasPrefix(neg, "verify-")) && (!cfg.TLS || cfg.Hook == 2)) {
			continue
		}
		run := c16Dial(cfg, -1, 0, 0, neg, false)
		out.Eval(fmt.Sprintf("%s|neg|%s|%d", core.J(cfg), neg, round), true)
		out.Count("negative_replies", 1)
		if run.conn != nil {
			fail("negative-reply-accepted:"+neg, "Dial returned a connection for a negative outcome ("+neg+")", run, nil)
			cleanup(run)
			return
		}
		ok := judge(run, "negative reply "+neg, map[string]interface{}{"negative": neg})
		cleanup(run)
		if !ok {
			return
		}
	}
	if cfg.Timeout != 0 {
		// the very last operation of a successful handshake (clearing the deadline) is slow and
		// ends after the configured limit: Dial may fail or succeed, but success means an open
		// connection
		c16SlowClear = 90 * time.Millisecond
		run := c16Dial(cfg, -1, 0, 0, "", true)
		c16SlowClear = 0
		out.Eval(fmt.Sprintf("%s|slowclear|%d", core.J(cfg), round), true)
		out.Count("handshakes_finishing_just_after_the_limit", 1)
		ok := judge(run, "deadline clearing finishes after the 50 ms limit", nil)
		cleanup(run)
		if !ok {
			return
		}
	}
	if cfg.Timeout != 0 {
		for stop := 1; stop <= 3; stop++ {
			if (stop == 1 && !cfg.Proxy) || (stop == 2 && !cfg.TLS) {
				continue
			}
			run := c16Dial(cfg, -1, 0, stop, "", true)
			phase := []string{"", "proxy reply", "TLS handshake", "WebSocket reply"}[stop]
			out.Eval(fmt.Sprintf("%s|block|%d|%d", core.J(cfg), stop, round), true)
			out.Count("blocking_scenarios", 1)
			if run.conn != nil {
				fail("blocked-peer-accepted", "Dial returned a connection although the peer never sent its "+phase, run, nil)
				cleanup(run)
				return
			}
			ok := judge(run, "peer silent at "+phase+" under a 50 ms timeout", map[string]interface{}{"silent_phase": phase})
			cleanup(run)
			if !ok {
				return
			}
		}
	}
	if round == 0 {
		out.Sample(map[string]interface{}{"config": cfg, "clean_ops": opsDesc16(ops)})
	}
}

func opsDesc16(ops []xport.Op) []string {
	var s []string
	for i, op := range ops {
		if i > 40 {
			s = append(s, "...")
			break
		}
		d := op.Kind.String()
		switch op.Kind {
		case xport.OpRead, xport.OpWrite:
			d += fmt.Sprintf("(%d)", len(op.Data))
		case xport.OpSetDeadline, xport.OpSetReadDeadline, xport.OpSetWriteDeadline:
			if op.T.IsZero() {
				d += "(zero)"
			} else {
				d += "(+" + time.Until(op.T).Round(time.Second).String() + ")"
			}
		}
		if op.Err != nil {
			d += "!" + op.Err.Error()
		}
		s = append(s, d)
	}
	return s
}

var _ = bytes.Index
