package props

import (
	"encoding/binary"
	"errors"
	"fmt"
	"io"
	"net"
	"sort"
	"strings"
	"sync"
	"sync/atomic"
	"time"

	"github.com/anishathalye/porcupine"
	ws "github.com/gorilla/websocket"

	"verif/internal/gen"
	"verif/internal/wire"
	"verif/internal/xport"
)

// ---------------------------------------------------------------- write-side model

const (
	okData = iota
	okCtl
	okClose
	okObserve
)

const (
	resOK = iota
	resCloseSent
	resTimeout
	resOther
	resUnknown // outcome not visible to the caller (best-effort echo); decided from the wire
)

type opIn struct {
	Kind int
	ID   uint64
}

type opOut struct {
	Res int
	Pos int // rank of this operation's message among the endpoint's own messages on the wire (-1 = not on the wire)
	N   int // observe: number of own messages on the wire
	Err string
}

type wsState struct {
	closed bool
	n      int
}

func resName(r int) string {
	return [...]string{"ok", "ErrCloseSent", "timeout", "error", "unknown"}[r]
}

// writeModel is the sequential specification of the write side (DESIGN 2.3).
// Histories are made unambiguous by giving every successful operation the
// wire position of its message as output, so the checker never has to guess
// an order: state = (closed, number of messages written so far).
var writeModel = porcupine.Model{
	Init: func() interface{} { return wsState{} },
	Step: func(st, in, out interface{}) (bool, interface{}) {
		s := st.(wsState)
		i := in.(opIn)
		o := out.(opOut)
		if i.Kind == okObserve {
			return o.N == s.n, s
		}
		switch o.Res {
		case resOK:
			if s.closed || o.Pos != s.n {
				return false, s
			}
			return true, wsState{closed: i.Kind == okClose, n: s.n + 1}
		case resCloseSent:
			return s.closed && o.Pos < 0, s
		case resTimeout:
			return o.Pos < 0, s
		case resOther:
			// a transport error: the message may or may not have been completed
			if o.Pos >= 0 {
				if s.closed || o.Pos != s.n {
					return false, s
				}
				return true, wsState{closed: i.Kind == okClose, n: s.n + 1}
			}
			return true, s
		}
		return false, s
	},
	Equal: func(a, b interface{}) bool { return a.(wsState) == b.(wsState) },
	DescribeOperation: func(in, out interface{}) string {
		i := in.(opIn)
		o := out.(opOut)
		if i.Kind == okObserve {
			return fmt.Sprintf("observe -> %d messages on the wire", o.N)
		}
		return fmt.Sprintf("%s(%x) -> %s, wire position %d", [...]string{"data", "control", "close"}[i.Kind], i.ID, resName(o.Res), o.Pos)
	},
	DescribeState: func(st interface{}) string {
		s := st.(wsState)
		return fmt.Sprintf("closed=%v n=%d", s.closed, s.n)
	},
}

func classifyErr(err error) (int, string) {
	if err == nil {
		return resOK, ""
	}
	if errors.Is(err, ws.ErrCloseSent) {
		return resCloseSent, err.Error()
	}
	var ne net.Error
	if errors.As(err, &ne) && ne.Timeout() && strings.Contains(err.Error(), "write timeout") {
		return resTimeout, err.Error()
	}
	return resOther, err.Error()
}

// ---------------------------------------------------------------- one endpoint under concurrent use

type endpoint struct {
	tag    uint64 // id namespace
	c      *ws.Conn
	nc     *xport.Conn
	cfg    Cfg
	clock  *int64
	mu     sync.Mutex
	hist   []porcupine.Operation
	next   uint64
	gotMu  sync.Mutex
	got    []Got // messages delivered by this endpoint's reader
	rdErr  error
	sigs   map[string]bool
	closeW int64 // logical time at which the close-sending call returned (0 = none)
	dlMu   sync.Mutex
	dls    map[uint64]time.Time // message id -> the write deadline the property names for its frames
	curDL  time.Time            // the writer goroutine's current SetWriteDeadline value
}

func (e *endpoint) noteDL(id uint64, t time.Time) {
	e.dlMu.Lock()
	if e.dls == nil {
		e.dls = map[uint64]time.Time{}
	}
	e.dls[id] = t
	e.dlMu.Unlock()
}

// armedDeadlines walks the transport's op log: at every Write that carries bytes of a
// frame of one of this endpoint's own messages, the write deadline armed on the
// transport must be the one the property names for that frame (the writer's current
// SetWriteDeadline value for data frames and messages sent through the writer,
// WriteControl's own argument for its control frames). Deadlines are compared as
// values, never against the clock. Returns the number of (write, deadline) pairs checked.
func (e *endpoint) armedDeadlines(frames []wire.Frame, msgs []wire.Msg, decodedLen int) (checked int, report string) {
	idOf := make([]uint64, len(frames))
	has := make([]bool, len(frames))
	for _, m := range msgs {
		var id uint64
		var ok bool
		if m.Op == 8 {
			code, reason, _ := wire.CloseBody(m.Data)
			if code == 1000 && len(reason) == 8 {
				id, ok = binary.BigEndian.Uint64([]byte(reason)), true
			}
		} else {
			id, ok = payloadID(m.Data)
		}
		if !ok || id>>56 != e.tag {
			continue
		}
		for j := m.First; j <= m.Last && j < len(frames); j++ {
			if m.Op >= 8 && j != m.First {
				break
			}
			if (frames[j].Op >= 8) == (m.Op >= 8) {
				idOf[j], has[j] = id, true
			}
		}
	}
	e.dlMu.Lock()
	defer e.dlMu.Unlock()
	var armed time.Time
	off, fi := 0, 0
	for _, op := range e.nc.Ops() {
		switch op.Kind {
		case xport.OpSetWriteDeadline, xport.OpSetDeadline:
			if op.Err == nil {
				armed = op.T
			}
		case xport.OpWrite:
			if len(op.Data) == 0 {
				continue
			}
			for fi+1 < len(frames) && frames[fi+1].Off <= off {
				fi++
			}
			end := decodedLen // bytes after the last complete frame belong to no decoded frame
			if fi+1 < len(frames) {
				end = frames[fi+1].Off
			}
			if fi < len(frames) && has[fi] && frames[fi].Off <= off && off < end {
				if want, ok := e.dls[idOf[fi]]; ok {
					checked++
					if !armed.Equal(want) || armed.IsZero() != want.IsZero() {
						kind := "data"
						if frames[fi].Op >= 8 {
							kind = "control"
						}
						return checked, fmt.Sprintf("bytes of a %s frame (opcode %d, message %x, stream offset %d) were written while the transport's write deadline was %s; the deadline in force for that message is %s", kind, frames[fi].Op, idOf[fi], off, dlText(armed), dlText(want))
					}
				}
			}
			off += len(op.Data)
		}
	}
	return checked, ""
}

func dlText(t time.Time) string {
	if t.IsZero() {
		return "none"
	}
	return t.Format("15:04:05.000000000")
}

func (e *endpoint) newID(kind int) uint64 {
	n := atomic.AddUint64(&e.next, 1)
	return e.tag<<56 | uint64(kind)<<48 | n
}

func (e *endpoint) tick() int64 { return atomic.AddInt64(e.clock, 1) }

func (e *endpoint) record(client int, in opIn, f func() error) (int, error) {
	call := e.tick()
	err := f()
	ret := e.tick()
	res, es := classifyErr(err)
	e.mu.Lock()
	e.hist = append(e.hist, porcupine.Operation{ClientId: client, Input: in, Call: call, Output: opOut{Res: res, Err: es}, Return: ret})
	e.mu.Unlock()
	return res, err
}

func idPayload(id uint64, n int, r *gen.R) []byte {
	if n < 8 {
		n = 8
	}
	b := make([]byte, n)
	r.Fill(b)
	binary.BigEndian.PutUint64(b, id)
	return b
}

func payloadID(b []byte) (uint64, bool) {
	if len(b) < 8 {
		return 0, false
	}
	return binary.BigEndian.Uint64(b), true
}

// observe decodes the endpoint's write log and returns the ids of its own
// complete messages in wire order, plus the decoded frames.
func (e *endpoint) observe() (seq []uint64, frames []wire.Frame, msgs []wire.Msg, tailBytes int, err error) {
	frames, rest, derr := wire.Decode(e.nc.Written())
	if derr != nil {
		return nil, frames, nil, len(rest), derr
	}
	msgs, _, v := wire.Validate(frames, !e.cfg.Server, e.cfg.Comp)
	if v != nil {
		return nil, frames, msgs, len(rest), v
	}
	for _, m := range msgs {
		var id uint64
		var ok bool
		if m.Op == 8 {
			code, reason, _ := wire.CloseBody(m.Data)
			if code == 1000 && len(reason) == 8 {
				id, ok = binary.BigEndian.Uint64([]byte(reason)), true
			} else {
				id, ok = e.tag<<56|uint64(okClose)<<48|uint64(0xffff0000+code), true // library-generated close
			}
		} else {
			id, ok = payloadID(m.Data)
		}
		if !ok || id>>56 != e.tag {
			continue // e.g. a pong answering the peer's ping
		}
		seq = append(seq, id)
	}
	return seq, frames, msgs, len(rest), nil
}

func (e *endpoint) libCloseID(code int) uint64 {
	return e.tag<<56 | uint64(okClose)<<48 | uint64(0xffff0000+code)
}

// startReader reads until failure, recording deliveries.
func (e *endpoint) startReader(wg *sync.WaitGroup) {
	wg.Add(1)
	go func() {
		defer wg.Done()
		for {
			t, p, err := e.c.ReadMessage()
			if err != nil {
				e.gotMu.Lock()
				e.rdErr = err
				e.gotMu.Unlock()
				return
			}
			e.gotMu.Lock()
			e.got = append(e.got, Got{Type: t, Data: p})
			e.gotMu.Unlock()
		}
	}()
}

// writerLoop sends n data messages with unique ids through varying APIs.
func (e *endpoint) writerLoop(client int, n int, r *gen.R, maxSize int, sent *[]Sent, stop *int32) {
	for i := 0; i < n && atomic.LoadInt32(stop) == 0; i++ {
		id := e.newID(okData)
		size := r.BoundarySize(e.cfg.WB, maxSize)
		p := idPayload(id, size, r)
		typ := 1 + r.Intn(2)
		// the writer's own deadline: far in the future (never expires in a run) or none;
		// it stays in force until changed
		if r.Chance(1, 3) {
			e.curDL = time.Time{}
			if r.Bool() {
				e.curDL = time.Now().Add(time.Hour + time.Duration(id&0xffff)*time.Microsecond)
			}
			e.c.SetWriteDeadline(e.curDL)
		}
		e.noteDL(id, e.curDL)
		var res int
		switch r.Intn(4) {
		case 0, 1:
			res, _ = e.record(client, opIn{okData, id}, func() error { return e.c.WriteMessage(typ, p) })
		case 2:
			res, _ = e.record(client, opIn{okData, id}, func() error {
				w, err := e.c.NextWriter(typ)
				if err != nil {
					return err
				}
				off := 0
				for _, k := range r.Splits(len(p)) {
					if _, err := w.Write(p[off : off+k]); err != nil {
						w.Close()
						return err
					}
					off += k
				}
				return w.Close()
			})
		default:
			pm, err := ws.NewPreparedMessage(typ, p)
			if err != nil {
				continue
			}
			res, _ = e.record(client, opIn{okData, id}, func() error { return e.c.WritePreparedMessage(pm) })
		}
		if res == resOK {
			*sent = append(*sent, Sent{Type: typ, Data: p})
		}
		if r.Chance(1, 4) {
			time.Sleep(time.Duration(r.Intn(200)) * time.Microsecond)
		}
	}
}

// ctlLoop issues n WriteControl pings/pongs.
func (e *endpoint) ctlLoop(client int, n int, r *gen.R, deadline func() time.Time, stop *int32) {
	for i := 0; i < n && atomic.LoadInt32(stop) == 0; i++ {
		id := e.newID(okCtl)
		p := idPayload(id, r.Range(8, 125), r)
		d := deadline()
		e.noteDL(id, d)
		e.record(client, opIn{okCtl, id}, func() error { return e.c.WriteControl(9+r.Intn(2), p, d) })
		if r.Chance(1, 3) {
			time.Sleep(time.Duration(r.Intn(300)) * time.Microsecond)
		}
	}
}

func idCloseBody(id uint64) []byte {
	var b [8]byte
	binary.BigEndian.PutUint64(b[:], id)
	return wire.MkClose(1000, string(b[:]))
}

// checkHistory gives every operation its wire position and asks porcupine.
func (e *endpoint) checkHistory(seq []uint64) (porcupine.CheckResult, string) {
	pos := map[uint64]int{}
	for i, id := range seq {
		if _, dup := pos[id]; dup {
			return porcupine.Illegal, fmt.Sprintf("message %x is on the wire twice", id)
		}
		pos[id] = i
	}
	e.mu.Lock()
	h := append([]porcupine.Operation(nil), e.hist...)
	e.mu.Unlock()
	known := map[uint64]bool{}
	for i := range h {
		in := h[i].Input.(opIn)
		o := h[i].Output.(opOut)
		o.Pos = -1
		if p, ok := pos[in.ID]; ok {
			o.Pos = p
		}
		known[in.ID] = true
		h[i].Output = o
	}
	for _, id := range seq {
		if !known[id] {
			return porcupine.Illegal, fmt.Sprintf("message %x is on the wire but no recorded call sent it", id)
		}
	}
	t := e.tick()
	h = append(h, porcupine.Operation{ClientId: 1000, Input: opIn{Kind: okObserve}, Call: t, Output: opOut{N: len(seq)}, Return: e.tick()})
	res, _ := porcupine.CheckOperationsVerbose(writeModel, h, 20*time.Second)
	if res == porcupine.Ok {
		return res, ""
	}
	sort.Slice(h, func(i, j int) bool { return h[i].Call < h[j].Call })
	var sb strings.Builder
	for i, op := range h {
		if i > 80 {
			sb.WriteString("...\n")
			break
		}
		fmt.Fprintf(&sb, "client %d [%d,%d] %s\n", op.ClientId, op.Call, op.Return, writeModel.DescribeOperation(op.Input, op.Output))
	}
	return res, sb.String()
}

// drainRaw reads and discards everything arriving at a raw pipe end.
func drainRaw(nc *xport.Conn, wg *sync.WaitGroup) {
	wg.Add(1)
	go func() {
		defer wg.Done()
		buf := make([]byte, 32768)
		for {
			if _, err := nc.Read(buf); err != nil {
				return
			}
		}
	}()
}

var _ = io.EOF
