package props

import (
	"bufio"
	"crypto/tls"
	"encoding/binary"
	"fmt"
	"io"
	"net"
	"net/http"
	"strings"
	"sync"
	"time"
)

// In-process peers for C18: a WebSocket backend (plain or TLS), an HTTP(S)
// CONNECT proxy and a SOCKS5 proxy, all on loopback, all recording what they saw.

type backend struct {
	ln   net.Listener
	tls  *tls.Config
	mu   sync.Mutex
	Conn int      // accepted connections
	From []string // remote addresses of accepted connections
	// per connection: what arrived first
	FirstByteTLS int      // connections whose first byte was a TLS handshake record
	PlainReqs    int      // WebSocket requests received in clear text
	TLSReqs      int      // WebSocket requests received inside TLS
	Hosts        []string // Host headers of received requests
	DoubleTLS    int      // a TLS ClientHello arrived inside the TLS session
	wg           sync.WaitGroup
}

func newBackend(tlsCfg *tls.Config, addr string) (*backend, error) {
	ln, err := net.Listen("tcp", addr)
	if err != nil {
		return nil, err
	}
	b := &backend{ln: ln, tls: tlsCfg}
	go b.serve()
	return b, nil
}

func (b *backend) Addr() string { return b.ln.Addr().String() }

func (b *backend) Close() { b.ln.Close() }

func (b *backend) serve() {
	for {
		c, err := b.ln.Accept()
		if err != nil {
			return
		}
		b.mu.Lock()
		b.Conn++
		b.From = append(b.From, c.RemoteAddr().String())
		b.mu.Unlock()
		go b.handle(c)
	}
}

func (b *backend) handle(c net.Conn) {
	defer c.Close()
	c.SetDeadline(time.Now().Add(20 * time.Second))
	br := bufio.NewReader(c)
	first, err := br.Peek(1)
	if err != nil {
		return
	}
	var conn net.Conn = &bufConn{Conn: c, r: br}
	isTLS := first[0] == 0x16
	if isTLS {
		b.mu.Lock()
		b.FirstByteTLS++
		b.mu.Unlock()
		if b.tls == nil {
			return // a plain backend does not speak TLS
		}
		tc := tls.Server(conn, b.tls)
		if err := tc.Handshake(); err != nil {
			return
		}
		conn = tc
		br = bufio.NewReader(tc)
		if p, err := br.Peek(1); err == nil && p[0] == 0x16 {
			b.mu.Lock()
			b.DoubleTLS++
			b.mu.Unlock()
			return
		}
	} else if b.tls != nil {
		// clear text sent to a TLS backend: record and drop
		if req, err := http.ReadRequest(br); err == nil {
			b.mu.Lock()
			b.PlainReqs++
			b.Hosts = append(b.Hosts, req.Host)
			b.mu.Unlock()
		}
		return
	}
	req, err := http.ReadRequest(br)
	if err != nil {
		return
	}
	b.mu.Lock()
	if isTLS {
		b.TLSReqs++
	} else {
		b.PlainReqs++
	}
	b.Hosts = append(b.Hosts, req.Host)
	b.mu.Unlock()
	key := req.Header.Get("Sec-Websocket-Key")
	conn.Write([]byte("HTTP/1.1 101 Switching Protocols\r\nUpgrade: websocket\r\nConnection: Upgrade\r\nSec-WebSocket-Accept: " + acceptDigest(key) + "\r\n\r\n"))
	// keep the connection until the client goes away
	io.Copy(io.Discard, br)
}

func (b *backend) snapshot() backend {
	b.mu.Lock()
	defer b.mu.Unlock()
	return backend{Conn: b.Conn, From: append([]string(nil), b.From...), FirstByteTLS: b.FirstByteTLS, PlainReqs: b.PlainReqs, TLSReqs: b.TLSReqs, Hosts: append([]string(nil), b.Hosts...), DoubleTLS: b.DoubleTLS}
}

// ---------------------------------------------------------------- HTTP(S) CONNECT proxy

type connectReq struct {
	Method string
	Target string
	Host   string
	Auth   []string
	Other  int // non-CONNECT requests
}

type httpProxy struct {
	ln      net.Listener
	tls     *tls.Config
	resolve func(string) string
	Status  int // reply status (200 = tunnel)
	NoText  bool
	mu      sync.Mutex
	Conn    int
	Reqs    []connectReq
	Tunnels []string // local addresses of outgoing connections
	TLSIn   int      // inbound connections that started with a TLS handshake
	// AfterRefusal holds bytes the client sent after a non-200 reply
	AfterRefusal []byte
}

func newHTTPProxy(tlsCfg *tls.Config, resolve func(string) string, status int) (*httpProxy, error) {
	ln, err := net.Listen("tcp", "127.0.0.1:0")
	if err != nil {
		return nil, err
	}
	p := &httpProxy{ln: ln, tls: tlsCfg, resolve: resolve, Status: status}
	go p.serve()
	return p, nil
}

func (p *httpProxy) Addr() string { return p.ln.Addr().String() }
func (p *httpProxy) Close()       { p.ln.Close() }

func (p *httpProxy) serve() {
	for {
		c, err := p.ln.Accept()
		if err != nil {
			return
		}
		p.mu.Lock()
		p.Conn++
		p.mu.Unlock()
		go p.handle(c)
	}
}

func (p *httpProxy) handle(c net.Conn) {
	defer c.Close()
	c.SetDeadline(time.Now().Add(20 * time.Second))
	br := bufio.NewReader(c)
	first, err := br.Peek(1)
	if err != nil {
		return
	}
	var conn net.Conn = &bufConn{Conn: c, r: br}
	if first[0] == 0x16 {
		p.mu.Lock()
		p.TLSIn++
		p.mu.Unlock()
		if p.tls == nil {
			return
		}
		tc := tls.Server(conn, p.tls)
		if err := tc.Handshake(); err != nil {
			return
		}
		conn = tc
		br = bufio.NewReader(tc)
	} else if p.tls != nil {
		return // clear text to an HTTPS proxy
	}
	req, err := http.ReadRequest(br)
	if err != nil {
		return
	}
	cr := connectReq{Method: req.Method, Target: req.RequestURI, Host: req.Host, Auth: req.Header.Values("Proxy-Authorization")}
	p.mu.Lock()
	p.Reqs = append(p.Reqs, cr)
	p.mu.Unlock()
	if req.Method != "CONNECT" {
		conn.Write([]byte("HTTP/1.1 405 Method Not Allowed\r\nContent-Length: 0\r\n\r\n"))
		return
	}
	if p.Status < 0 {
		return // the proxy takes the CONNECT and hangs up without a word
	}
	if p.Status != 200 {
		if p.NoText {
			fmt.Fprintf(conn, "HTTP/1.1 %d\r\n\r\n", p.Status)
		} else {
			fmt.Fprintf(conn, "HTTP/1.1 %d Nope\r\nContent-Length: 0\r\n\r\n", p.Status)
		}
		// a client that aborts closes the connection; one that goes on sends its
		// WebSocket request into the refused tunnel
		conn.SetReadDeadline(time.Now().Add(400 * time.Millisecond))
		buf := make([]byte, 64)
		n, _ := io.ReadAtLeast(br, buf, 1)
		if n > 0 {
			p.mu.Lock()
			p.AfterRefusal = append(p.AfterRefusal, buf[:n]...)
			p.mu.Unlock()
		}
		return
	}
	up, err := net.DialTimeout("tcp", p.resolve(req.RequestURI), 5*time.Second)
	if err != nil {
		conn.Write([]byte("HTTP/1.1 502 Bad Gateway\r\nContent-Length: 0\r\n\r\n"))
		return
	}
	defer up.Close()
	p.mu.Lock()
	p.Tunnels = append(p.Tunnels, up.LocalAddr().String())
	p.mu.Unlock()
	conn.Write([]byte("HTTP/1.1 200 Connection established\r\n\r\n"))
	go io.Copy(up, br)
	io.Copy(conn, up)
}

// ---------------------------------------------------------------- SOCKS5 proxy

type socksReq struct {
	Cmd    byte
	Target string
	Method byte // 0 no auth, 2 user/password
	User   string
	Pass   string
}

type socksProxy struct {
	ln       net.Listener
	resolve  func(string) string
	needAuth bool
	Refuse   bool
	mu       sync.Mutex
	Conn     int
	Reqs     []socksReq
	Tunnels  []string
}

func newSocksProxy(resolve func(string) string, needAuth, refuse bool) (*socksProxy, error) {
	ln, err := net.Listen("tcp", "127.0.0.1:0")
	if err != nil {
		return nil, err
	}
	p := &socksProxy{ln: ln, resolve: resolve, needAuth: needAuth, Refuse: refuse}
	go p.serve()
	return p, nil
}

func (p *socksProxy) Addr() string { return p.ln.Addr().String() }
func (p *socksProxy) Close()       { p.ln.Close() }

func (p *socksProxy) serve() {
	for {
		c, err := p.ln.Accept()
		if err != nil {
			return
		}
		p.mu.Lock()
		p.Conn++
		p.mu.Unlock()
		go p.handle(c)
	}
}

func (p *socksProxy) handle(c net.Conn) {
	defer c.Close()
	c.SetDeadline(time.Now().Add(20 * time.Second))
	hdr := make([]byte, 2)
	if _, err := io.ReadFull(c, hdr); err != nil || hdr[0] != 5 {
		return
	}
	methods := make([]byte, hdr[1])
	if _, err := io.ReadFull(c, methods); err != nil {
		return
	}
	has := func(m byte) bool { return strings.IndexByte(string(methods), m) >= 0 }
	var rq socksReq
	switch {
	case p.needAuth && has(2), !has(0) && has(2):
		c.Write([]byte{5, 2})
		b := make([]byte, 2)
		if _, err := io.ReadFull(c, b); err != nil {
			return
		}
		u := make([]byte, b[1])
		io.ReadFull(c, u)
		io.ReadFull(c, b[:1])
		pw := make([]byte, b[0])
		io.ReadFull(c, pw)
		rq.Method, rq.User, rq.Pass = 2, string(u), string(pw)
		c.Write([]byte{1, 0})
	case has(0) && !p.needAuth:
		c.Write([]byte{5, 0})
	default:
		c.Write([]byte{5, 0xff})
		return
	}
	h := make([]byte, 4)
	if _, err := io.ReadFull(c, h); err != nil {
		return
	}
	rq.Cmd = h[1]
	var host string
	switch h[3] {
	case 1:
		b := make([]byte, 4)
		io.ReadFull(c, b)
		host = net.IP(b).String()
	case 4:
		b := make([]byte, 16)
		io.ReadFull(c, b)
		host = "[" + net.IP(b).String() + "]"
	case 3:
		b := make([]byte, 1)
		io.ReadFull(c, b)
		n := make([]byte, b[0])
		io.ReadFull(c, n)
		host = string(n)
		if strings.Contains(host, ":") {
			host = "[" + host + "]"
		}
	}
	pb := make([]byte, 2)
	io.ReadFull(c, pb)
	rq.Target = fmt.Sprintf("%s:%d", host, binary.BigEndian.Uint16(pb))
	p.mu.Lock()
	p.Reqs = append(p.Reqs, rq)
	p.mu.Unlock()
	if p.Refuse || rq.Cmd != 1 {
		c.Write([]byte{5, 2, 0, 1, 0, 0, 0, 0, 0, 0}) // connection not allowed
		return
	}
	up, err := net.DialTimeout("tcp", p.resolve(rq.Target), 5*time.Second)
	if err != nil {
		c.Write([]byte{5, 5, 0, 1, 0, 0, 0, 0, 0, 0})
		return
	}
	defer up.Close()
	p.mu.Lock()
	p.Tunnels = append(p.Tunnels, up.LocalAddr().String())
	p.mu.Unlock()
	c.Write([]byte{5, 0, 0, 1, 127, 0, 0, 1, 0, 0})
	go io.Copy(up, c)
	io.Copy(c, up)
}
