package props

import (
	"bytes"
	"errors"
	"fmt"
	"net"
	"runtime"
	"sync"
	"sync/atomic"
	"time"

	"github.com/anishathalye/porcupine"
	ws "github.com/gorilla/websocket"

	"verif/internal/core"
	"verif/internal/gen"
	"verif/internal/wire"
	"verif/internal/xport"
)

func init() {
	core.Register(&core.Prop{
		ID:    "C11",
		Level: "exploration",
		Rule: "three scenario families, each run in a plain and in a race-detector build: W1 = client and server Conn over a duplex in-memory transport (random read chunking, writes that dawdle inside the transport), per side 1 reader with default handlers, 1 writer, 0-4 WriteControl callers, Close at a drawn moment or never; the writer sets far-future or zero write deadlines and a monitor over the transport log compares the deadline armed at every Write of an own frame with the one in force for that frame; " +
			"W2 = the writer is held inside the transport's Write by a gate while WriteControl callers with 5-40 ms deadlines arrive; W3 = one PreparedMessage and one write-buffer pool shared by 8-32 connections on as many goroutines; " +
			"W4 = the process-wide flate pools after failed compressed writers: 1-4 connections whose transport fails in the middle of a large compressed message, the application closing the failed writer one to three times (explicit Close plus deferred Close), then 4-12 healthy compressing connections at the same level with a writer open at overlapping times, every transport decoded and compared with what its own connection sent; " +
			"distinct = interleaving signature (which kinds of calls overlapped, control frame between fragments, who waited behind whom); non-trivial = at least two write-side calls overlapped in time",
		Variants: func(tier string) []string { return []string{"plain", "race"} },
		Cases: func(tier, variant string) int {
			n := 900
			if tier == "thorough" {
				n = 40000
			}
			if variant == "race" {
				n /= 3
			}
			return n
		},
		Run:          runC11,
		Required:     []string{"w1_runs", "w2_runs", "w3_runs", "w4_runs", "w4_failed_compressed_writers_closed_again", "frames_decoded", "writecontrol_timeouts_observed", "histories_linearizable", "deadline_pairs_checked", "closes_while_the_writer_is_stalled"},
		CaseTimeoutS: 300,
		MaxWorkers:   8,
		Assumptions: []string{
			"schedules are sampled: goroutine timing, transport dawdling and gates produce the interleavings; the race detector generalises only over the synchronisation it observed",
			"'by that deadline' is decided as: returned with a timeout error vs. still blocked 30 s after the deadline while the gate is provably closed; the measured lateness is reported, not judged",
		},
	})
}

func runC11(ctx *core.Ctx, out *core.Out) {
	if ctx.Idx%20 == 19 {
		c11W4(ctx, out)
		return
	}
	switch ctx.Idx % 5 {
	case 0, 1, 2:
		c11W1(ctx, out)
	case 3:
		c11W2(ctx, out)
	default:
		c11W3(ctx, out)
	}
}

type c11Case struct {
	A, B     Cfg
	NCtlA    int   `json:"ctl_callers_a"`
	NCtlB    int   `json:"ctl_callers_b"`
	MsgsA    int   `json:"msgs_a"`
	MsgsB    int   `json:"msgs_b"`
	Abrupt   int   `json:"abrupt_close_side"` // 0 none, 1 A, 2 B
	AbruptUs int   `json:"abrupt_after_us"`
	DawdleNs int64 `json:"transport_dawdle_ns"`
	MaxSize  int   `json:"max_size"`
}

func c11W1(ctx *core.Ctx, out *core.Out) {
	r := ctx.R
	cs := c11Case{NCtlA: r.Range(0, 4), NCtlB: r.Range(0, 4), MsgsA: r.Range(1, 12), MsgsB: r.Range(0, 12), MaxSize: []int{200, 3000, 20000}[r.Intn(3)]}
	comp := r.Chance(1, 3)
	cs.A = Cfg{Server: false, RB: r.BufSize(), WB: r.BufSize(), Pool: r.Chance(1, 3), Comp: comp}
	cs.B = Cfg{Server: true, RB: r.BufSize(), WB: r.BufSize(), Pool: r.Chance(1, 3), Comp: comp}
	if r.Chance(1, 5) {
		cs.Abrupt = 1 + r.Intn(2)
		cs.AbruptUs = r.Intn(3000)
	}
	if r.Bool() {
		cs.DawdleNs = int64(r.Range(1, 200)) * 1000
	}
	a, b := xport.NewPipe()
	var clock int64
	pool := &TrackPool{}
	if (cs.A.Pool || cs.B.Pool) && cs.MsgsA%2 == 0 {
		// an application pool may be slow: widens whatever the library leaves open around Put
		pool.PutDelay = func() { runtime.Gosched(); time.Sleep(100 * time.Microsecond) }
	}
	mkEnd := func(tag uint64, nc *xport.Conn, cfg Cfg, label string) *endpoint {
		ep := &endpoint{tag: tag, nc: nc, cfg: cfg, clock: &clock}
		ep.c = newConn(nc, cfg, pool, int(tag))
		rr := gen.For(ctx.Seed, "c11/readmax/"+label, ctx.Idx)
		var mu sync.Mutex
		nc.ReadMax = func() int {
			mu.Lock()
			defer mu.Unlock()
			if rr.Chance(1, 3) {
				return 0
			}
			return rr.Range(1, 900)
		}
		if cs.DawdleNs > 0 {
			d := time.Duration(cs.DawdleNs)
			nc.DawdleFn = func() {
				runtime.Gosched()
				time.Sleep(d)
			}
		} else {
			nc.DawdleFn = runtime.Gosched
		}
		return ep
	}
	epA := mkEnd(1, a, cs.A, "a")
	epB := mkEnd(2, b, cs.B, "b")

	// close handler instrumentation on both sides (the echo is a write-side operation)
	type hmark struct{ call, ret int64 }
	var hA, hB hmark
	wrapClose := func(ep *endpoint, m *hmark) {
		dc := ep.c.CloseHandler()
		ep.c.SetCloseHandler(func(code int, text string) error {
			atomic.StoreInt64(&m.call, ep.tick())
			err := dc(code, text)
			atomic.StoreInt64(&m.ret, ep.tick())
			return err
		})
	}
	wrapClose(epA, &hA)
	wrapClose(epB, &hB)

	var wgR, wgW sync.WaitGroup
	epA.startReader(&wgR)
	epB.startReader(&wgR)
	var stop int32
	var sentA, sentB []Sent
	dl := func(rr *gen.R) func() time.Time {
		return func() time.Time {
			if rr.Chance(1, 3) {
				return time.Time{}
			}
			return time.Now().Add(10 * time.Second)
		}
	}
	wgW.Add(2)
	go func() {
		defer wgW.Done()
		rr := gen.For(ctx.Seed, "c11/wa", ctx.Idx)
		epA.writerLoop(1, cs.MsgsA, rr, cs.MaxSize, &sentA, &stop)
		// the protocol close, by the writer goroutine or through WriteControl
		id := epA.newID(okClose)
		body := idCloseBody(id)
		if rr.Bool() {
			epA.noteDL(id, epA.curDL)
			epA.record(1, opIn{okClose, id}, func() error { return epA.c.WriteMessage(ws.CloseMessage, body) })
		} else {
			epA.noteDL(id, time.Time{})
			epA.record(1, opIn{okClose, id}, func() error { return epA.c.WriteControl(ws.CloseMessage, body, time.Time{}) })
		}
	}()
	go func() {
		defer wgW.Done()
		rr := gen.For(ctx.Seed, "c11/wb", ctx.Idx)
		epB.writerLoop(1, cs.MsgsB, rr, cs.MaxSize, &sentB, &stop)
	}()
	for k := 0; k < cs.NCtlA; k++ {
		wgW.Add(1)
		go func(k int) {
			defer wgW.Done()
			rr := gen.For(ctx.Seed, fmt.Sprintf("c11/ca%d", k), ctx.Idx)
			epA.ctlLoop(10+k, rr.Range(1, 10), rr, dl(rr), &stop)
		}(k)
	}
	for k := 0; k < cs.NCtlB; k++ {
		wgW.Add(1)
		go func(k int) {
			defer wgW.Done()
			rr := gen.For(ctx.Seed, fmt.Sprintf("c11/cb%d", k), ctx.Idx)
			epB.ctlLoop(10+k, rr.Range(1, 10), rr, dl(rr), &stop)
		}(k)
	}
	if cs.Abrupt != 0 {
		wgW.Add(1)
		go func() {
			defer wgW.Done()
			time.Sleep(time.Duration(cs.AbruptUs) * time.Microsecond)
			if cs.Abrupt == 1 {
				epA.c.Close()
			} else {
				epB.c.Close()
			}
		}()
	}
	done := make(chan struct{})
	go func() { wgW.Wait(); close(done) }()
	select {
	case <-done:
	case <-time.After(120 * time.Second):
		out.Violate("C11:hang", "write-side goroutines of a W1 run did not finish within 120 s", map[string]interface{}{"case": cs})
		a.Close()
		b.Close()
		return
	}
	// give the readers a moment to see the closing handshake, then cut the transport
	rdDone := make(chan struct{})
	go func() { wgR.Wait(); close(rdDone) }()
	readersEndedNaturally := true
	wait := 20 * time.Second
	if cs.Abrupt != 0 {
		wait = 300 * time.Millisecond
	}
	select {
	case <-rdDone:
	case <-time.After(wait):
		readersEndedNaturally = false
	}
	a.Close()
	b.Close()
	<-rdDone
	out.Count("w1_runs", 1)

	fail := func(sig, what string, extra map[string]interface{}) {
		d := map[string]interface{}{"case": cs, "scenario": "W1"}
		for k, v := range extra {
			d[k] = v
		}
		out.Violate("C11:"+sig, what, d)
	}
	interleave := ""
	for _, side := range []struct {
		ep    *endpoint
		peer  *endpoint
		sent  []Sent
		name  string
		h     *hmark
		other *hmark
	}{{epA, epB, sentA, "client", &hA, &hB}, {epB, epA, sentB, "server", &hB, &hA}} {
		ep := side.ep
		if rep := ep.nc.OverlapReports(); len(rep) > 0 {
			fail("transport-write-overlap", fmt.Sprintf("%s side: %s (%d reports)", side.name, rep[0], len(rep)), nil)
			return
		}
		if rep := ep.nc.SeqViolations(); len(rep) > 0 {
			fail("deadline-write-pairing", fmt.Sprintf("%s side: %s", side.name, rep[0]), nil)
			return
		}
		seq, frames, msgs, tail, oerr := ep.observe()
		out.Count("frames_decoded", int64(len(frames)))
		if oerr != nil {
			fail("frames-not-contiguous-or-ill-formed", fmt.Sprintf("%s side write log: %v", side.name, oerr), map[string]interface{}{"frames": framesDesc(frames, 24)})
			return
		}
		if tail > 0 && cs.Abrupt == 0 {
			fail("partial-frame", fmt.Sprintf("%s side write log ends with %d loose bytes although the connection was never cut", side.name, tail), nil)
			return
		}
		// nobody in this scenario sets a read deadline: the write side (WriteControl callers, the
		// handlers' replies) has no business arming one on the transport
		for _, op := range ep.nc.Ops() {
			if (op.Kind == xport.OpSetDeadline || op.Kind == xport.OpSetReadDeadline) && !op.T.IsZero() {
				fail("write-side-call-armed-the-read-deadline", fmt.Sprintf("%s side: %s(%s) reached the transport although the application never set a read deadline: a reader blocked past it fails for good", side.name, op.Kind, dlText(op.T)), nil)
				return
			}
		}
		// the deadline armed on the transport at every write of an own frame
		nchk, rep := ep.armedDeadlines(frames, msgs, ep.nc.WrittenLen()-tail)
		out.Count("deadline_pairs_checked", int64(nchk))
		if rep != "" {
			fail("wrong-deadline-armed", side.name+" side: "+rep, nil)
			return
		}
		// nothing after a close frame
		for i, f := range frames {
			if f.Op == 8 && i != len(frames)-1 {
				fail("bytes-after-close", fmt.Sprintf("%s side: %d frames follow the close frame", side.name, len(frames)-1-i), map[string]interface{}{"frames": framesDesc(frames, 24)})
				return
			}
		}
		// control frame between fragments?
		for _, m := range msgs {
			if m.Op < 8 && m.Last-m.First+1 > m.NFrames {
				interleave += side.name + ":ctl-between-fragments "
				out.Count("control_frames_between_fragments", 1)
				break
			}
		}
		// the echo close as an operation
		if n := len(frames); n > 0 && frames[n-1].Op == 8 {
			code, reason, _ := wire.CloseBody(frames[n-1].Payload)
			if !(code == 1000 && len(reason) == 8) {
				call, ret := atomic.LoadInt64(&side.h.call), atomic.LoadInt64(&side.h.ret)
				if call == 0 {
					call = 1
				}
				if ret <= call {
					ret = ep.tick()
				}
				ep.mu.Lock()
				ep.hist = append(ep.hist, porcupine.Operation{ClientId: 60, Input: opIn{okClose, ep.libCloseID(code)}, Call: call, Output: opOut{Res: resOK}, Return: ret})
				ep.mu.Unlock()
			}
		}
		res, witness := ep.checkHistory(seq)
		switch res {
		case porcupine.Ok:
			out.Count("histories_linearizable", 1)
		case porcupine.Illegal:
			fail("history-not-linearizable", side.name+" side: the call/return history has no linearization that explains the wire", map[string]interface{}{"history": witness})
			return
		default:
			out.Inconcl("porcupine timed out")
		}
		// round trip under concurrency: the peer delivered a prefix of what was sent, intact
		side.peer.gotMu.Lock()
		got := append([]Got(nil), side.peer.got...)
		side.peer.gotMu.Unlock()
		if len(got) > len(side.sent) {
			fail("peer-delivered-unsent-message", fmt.Sprintf("peer of the %s delivered %d messages, only %d were sent successfully", side.name, len(got), len(side.sent)), nil)
			return
		}
		for i, g := range got {
			if g.Type != side.sent[i].Type || !bytes.Equal(g.Data, side.sent[i].Data) {
				fail("round-trip-under-concurrency", fmt.Sprintf("message %d from the %s arrived altered (len %d vs %d, first difference %d)", i, side.name, len(g.Data), len(side.sent[i].Data), diffAt(g.Data, side.sent[i].Data)), nil)
				return
			}
		}
		out.Count("messages_round_tripped", int64(len(got)))
		if cs.Abrupt == 0 && !readersEndedNaturally {
			out.Inconcl("readers had not seen the closing handshake 20 s after the writers finished (machine overloaded?)")
		} else if cs.Abrupt == 0 && side.name == "client" && len(got) != len(side.sent) {
			fail("message-lost-before-close", fmt.Sprintf("the client sent %d messages and then a close, the server delivered only %d", len(side.sent), len(got)), nil)
			return
		}
		// overlap statistics
		ep.mu.Lock()
		h := ep.hist
		ov := 0
		for i := range h {
			for j := i + 1; j < len(h); j++ {
				if h[i].Call < h[j].Return && h[j].Call < h[i].Return {
					ov++
				}
			}
		}
		ep.mu.Unlock()
		out.Count("overlapping_call_pairs", int64(ov))
		if ov > 0 {
			interleave += fmt.Sprintf("%s:overlaps>0 ", side.name)
		}
	}
	_, pf := pool.Snapshot()
	if len(pf) > 0 {
		fail("shared-pool", pf[0], nil)
		return
	}
	sig := fmt.Sprintf("W1 abrupt=%d comp=%v ctl=%d/%d %s", cs.Abrupt, comp, min3(cs.NCtlA, 2), min3(cs.NCtlB, 2), interleave)
	out.Eval(sig, interleave != "")
	if ctx.Idx%151 == 0 {
		out.Sample(map[string]interface{}{"scenario": "W1", "case": cs, "interleaving": sig})
	}
}

// c11W2: the writer is held inside the transport; WriteControl callers with
// short deadlines must come back with a timeout and leave no trace.
func c11W2(ctx *core.Ctx, out *core.Out) {
	r := ctx.R
	cfg := genCfg(r)
	a, b := xport.NewPipe()
	var wgR sync.WaitGroup
	drainRaw(b, &wgR)
	var clock int64
	ep := &endpoint{tag: 1, nc: a, cfg: cfg, clock: &clock}
	ep.c = newConn(a, cfg, &TrackPool{}, 0)
	gate := make(chan struct{})
	a.Gate = gate
	a.GateIf = func(p []byte) bool { return len(p) > 0 && p[0]&0x0f <= 2 }
	a.Gated = make(chan struct{}, 1)
	released := false
	release := func() {
		if !released {
			released = true
			close(gate)
		}
	}
	defer release()
	var stop int32
	var sent []Sent
	var wgW sync.WaitGroup
	wgW.Add(1)
	go func() {
		defer wgW.Done()
		ep.writerLoop(1, 1, gen.For(ctx.Seed, "c11w2/w", ctx.Idx), 2000, &sent, &stop)
	}()
	select {
	case <-a.Gated:
	case <-time.After(30 * time.Second):
		out.Inconcl("W2: the writer never reached the transport")
		a.Close()
		b.Close()
		out.Eval("W2-setup-failed", false)
		return
	}
	ncall := r.Range(1, 6)
	type wcRes struct {
		err      error
		lateUs   int64
		returned int32
	}
	results := make([]*wcRes, ncall)
	var wgC sync.WaitGroup
	for k := 0; k < ncall; k++ {
		results[k] = &wcRes{}
		wgC.Add(1)
		go func(k int) {
			defer wgC.Done()
			rr := gen.For(ctx.Seed, fmt.Sprintf("c11w2/c%d", k), ctx.Idx)
			d := time.Duration(rr.Range(5, 40)) * time.Millisecond
			id := ep.newID(okCtl)
			p := idPayload(id, rr.Range(8, 125), rr)
			deadline := time.Now().Add(d)
			_, err := ep.record(10+k, opIn{okCtl, id}, func() error { return ep.c.WriteControl(9, p, deadline) })
			results[k].lateUs = int64(time.Since(deadline) / time.Microsecond)
			results[k].err = err
			atomic.StoreInt32(&results[k].returned, 1)
		}(k)
	}
	cdone := make(chan struct{})
	go func() { wgC.Wait(); close(cdone) }()
	blocked := false
	select {
	case <-cdone:
	case <-time.After(30 * time.Second):
		blocked = true
	}
	out.Count("w2_runs", 1)
	fail := func(sig, what string, extra map[string]interface{}) {
		d := map[string]interface{}{"cfg": cfg, "scenario": "W2", "writecontrol_callers": ncall}
		for k, v := range extra {
			d[k] = v
		}
		out.Violate("C11:"+sig, what, d)
	}
	if blocked {
		n := 0
		for _, rs := range results {
			if atomic.LoadInt32(&rs.returned) == 0 {
				n++
			}
		}
		fail("writecontrol-blocks-past-deadline", fmt.Sprintf("%d of %d WriteControl calls with deadlines <= 40 ms are still blocked 30 s later while the writer is held inside the transport", n, ncall), nil)
		release()
		a.Close()
		b.Close()
		return
	}
	var maxLate int64
	for k, rs := range results {
		var ne net.Error
		if rs.err == nil {
			fail("writecontrol-succeeded-without-the-connection", fmt.Sprintf("WriteControl #%d returned nil while another write held the connection", k), nil)
			release()
			a.Close()
			b.Close()
			return
		}
		if !errors.As(rs.err, &ne) || !ne.Timeout() {
			fail("writecontrol-timeout-error-type", fmt.Sprintf("WriteControl #%d returned %v (%T), expected a net.Error with Timeout()", k, rs.err, rs.err), nil)
			release()
			a.Close()
			b.Close()
			return
		}
		out.Count("writecontrol_timeouts_observed", 1)
		if rs.lateUs > maxLate {
			maxLate = rs.lateUs
		}
	}
	out.Count("writecontrol_lateness_us_sum_of_case_maxima", maxLate)
	// While the writer is still stalled inside the transport: frames from the peer
	// whose default handlers want to write (a ping, then a close) must not block the
	// reader beyond the handlers' own one-second limit.
	if ctx.Idx%60 == 3 {
		peerMasked := cfg.Server
		mk := func(op int, p []byte) []byte {
			return wire.Append(nil, wire.Frame{Fin: true, Op: op, Masked: peerMasked, Key: [4]byte{4, 3, 2, 1}, Payload: p})
		}
		rdRes := make(chan error, 1)
		go func() {
			for {
				if _, _, err := ep.c.ReadMessage(); err != nil {
					rdRes <- err
					return
				}
			}
		}()
		b.Write(mk(9, []byte("ping-while-writer-stalled")))
		b.Write(mk(8, wire.MkClose(1000, "bye")))
		t0 := time.Now()
		select {
		case err := <-rdRes:
			out.Count("reads_completed_behind_stalled_writer", 1)
			out.Count("stalled_writer_read_latency_ms_sum", int64(time.Since(t0)/time.Millisecond))
			if !isCloseErr(err, 1000, "bye") {
				fail("read-behind-stalled-writer", fmt.Sprintf("the peer's close arrived while the writer was stalled; the reader returned %v instead of the close error", err), nil)
				release()
				a.Close()
				b.Close()
				return
			}
		case <-time.After(30 * time.Second):
			fail("reader-blocks-behind-stalled-writer", "a ping and a close arrived while a writer was stalled inside the transport; 30 s later the reader is still blocked (its handlers wait for the connection without a limit)", nil)
			release()
			a.Close()
			b.Close()
			return
		}
	}
	if ctx.Idx%60 == 8 || ctx.Idx%60 == 38 {
		// Close may be called by any goroutine at any time: also while the writer is stalled
		// inside the transport (with no write deadline set). It must come back.
		cd := make(chan struct{})
		go func() { ep.c.Close(); close(cd) }()
		select {
		case <-cd:
			out.Count("closes_while_the_writer_is_stalled", 1)
		case <-time.After(20 * time.Second):
			fail("close-blocks-behind-stalled-writer", "Conn.Close() called while a writer is stalled inside the transport has not returned 20 s later", nil)
			release()
			a.Close()
			b.Close()
			return
		}
		release()
		wgW.Wait()
		a.Close()
		b.Close()
		wgR.Wait()
		out.Eval(fmt.Sprintf("W2 close-while-stalled callers=%d server=%v", ncall, cfg.Server), true)
		return
	}
	release()
	wgW.Wait()
	// the timeouts must not have poisoned anything
	rr := gen.For(ctx.Seed, "c11w2/after", ctx.Idx)
	ep.writerLoop(1, 2, rr, 500, &sent, &stop)
	ep.ctlLoop(30, 2, rr, func() time.Time { return time.Now().Add(10 * time.Second) }, &stop)
	a.Close()
	b.Close()
	wgR.Wait()
	ep.mu.Lock()
	for _, op := range ep.hist {
		o := op.Output.(opOut)
		if o.Res != resOK && o.Res != resTimeout {
			ep.mu.Unlock()
			fail("timeout-poisons-connection", fmt.Sprintf("after WriteControl timeouts a later write failed: %s (%s)", writeModel.DescribeOperation(op.Input, o), o.Err), nil)
			return
		}
	}
	ep.mu.Unlock()
	seq, frames, _, tail, oerr := ep.observe()
	out.Count("frames_decoded", int64(len(frames)))
	if oerr != nil || tail > 0 {
		fail("frames-not-contiguous-or-ill-formed", fmt.Sprintf("write log: %v, %d loose bytes", oerr, tail), map[string]interface{}{"frames": framesDesc(frames, 16)})
		return
	}
	res, witness := ep.checkHistory(seq)
	switch res {
	case porcupine.Ok:
		out.Count("histories_linearizable", 1)
	case porcupine.Illegal:
		fail("history-not-linearizable", "a timed-out WriteControl left a frame on the wire, or a successful one did not: "+witness, map[string]interface{}{"history": witness})
		return
	default:
		out.Inconcl("porcupine timed out")
	}
	out.Eval(fmt.Sprintf("W2 callers=%d server=%v", ncall, cfg.Server), true)
	if ctx.Idx%203 == 3 {
		out.Sample(map[string]interface{}{"scenario": "W2", "cfg": cfg, "writecontrol_callers": ncall, "max_lateness_us": maxLate})
	}
}

// c11W3: one PreparedMessage and one pool shared by many connections.
func c11W3(ctx *core.Ctx, out *core.Out) {
	r := ctx.R
	n := r.Range(8, 32)
	wb := []int{64, 256, 1024, 4096}[r.Intn(4)]
	pool := &TrackPool{}
	type one struct {
		cfg Cfg
		nc  *xport.Conn
		c   *ws.Conn
	}
	conns := make([]*one, n)
	for i := range conns {
		cfg := Cfg{Server: r.Bool(), RB: 256, WB: wb, Pool: true, Comp: r.Bool()}
		nc := xport.New(nil)
		conns[i] = &one{cfg: cfg, nc: nc, c: newConn(nc, cfg, pool, i)}
	}
	rounds := r.Range(1, 4)
	var payloads [][]byte
	for rd := 0; rd < rounds; rd++ {
		p := r.Payload(r.Intn(gen.NPayloadClasses), []int{0, 10, 125, 126, 5000, 70000}[r.Intn(6)])
		payloads = append(payloads, p)
		pm, err := ws.NewPreparedMessage(2, p)
		if err != nil {
			out.Violate("C11:prepared", fmt.Sprintf("NewPreparedMessage failed: %v", err), nil)
			return
		}
		var wg sync.WaitGroup
		start := make(chan struct{})
		errs := make([]error, n)
		for i, c := range conns {
			wg.Add(1)
			go func(i int, c *one) {
				defer wg.Done()
				<-start
				if e := c.c.WritePreparedMessage(pm); e != nil {
					errs[i] = e
					return
				}
				errs[i] = c.c.WriteMessage(1, p[:len(p)/2])
			}(i, c)
		}
		close(start)
		wg.Wait()
		for i, e := range errs {
			if e != nil {
				out.Violate("C11:shared-prepared-send-failed", fmt.Sprintf("connection %d: %v", i, e), nil)
				return
			}
		}
	}
	out.Count("w3_runs", 1)
	pool.Audit()
	if _, pf := pool.Snapshot(); len(pf) > 0 {
		out.Violate("C11:shared-pool", pf[0], nil)
		return
	}
	for i, c := range conns {
		frames, rest, derr := wire.Decode(c.nc.Written())
		out.Count("frames_decoded", int64(len(frames)))
		msgs, open, v := wire.Validate(frames, !c.cfg.Server, c.cfg.Comp)
		if derr != nil || len(rest) > 0 || v != nil || open != nil || len(msgs) != 2*rounds {
			out.Violate("C11:shared-prepared-or-pool-corrupts-stream", fmt.Sprintf("connection %d of %d: decode err=%v validate=%v messages=%d want %d", i, n, derr, v, len(msgs), 2*rounds), map[string]interface{}{"frames": framesDesc(frames, 12)})
			return
		}
		for rd := 0; rd < rounds; rd++ {
			p := payloads[rd]
			if !bytes.Equal(msgs[2*rd].Data, p) || !bytes.Equal(msgs[2*rd+1].Data, p[:len(p)/2]) {
				out.Violate("C11:shared-prepared-or-pool-corrupts-stream", fmt.Sprintf("connection %d of %d, round %d: payload differs", i, n, rd), nil)
				return
			}
		}
	}
	out.Eval(fmt.Sprintf("W3 n=%d wb=%d rounds=%d", n, wb, rounds), true)
	if ctx.Idx%204 == 4 {
		out.Sample(map[string]interface{}{"scenario": "W3", "connections": n, "rounds": rounds, "write_buffer": wb})
	}
}

// c11W4: state shared between connections through the process-wide flate pools. A compressed
// message writer that failed (transport fault while a frame was flushed from inside Write) is
// closed again by the application (explicit Close + deferred Close is the ordinary Go idiom);
// afterwards healthy connections at the same level keep a writer open at overlapping times.
// Whatever the failed writers did, every healthy connection's transport must carry exactly its
// own messages.
func c11W4(ctx *core.Ctx, out *core.Out) {
	r := ctx.R
	level := []int{1, 2, 6, 9, -2, -1}[r.Intn(6)]
	nv := r.Range(1, 4)
	extra := 0
	for v := 0; v < nv; v++ {
		cfg := Cfg{Server: r.Bool(), RB: 256, WB: []int{128, 512, 4096}[r.Intn(3)], Comp: true}
		nc := xport.New(nil)
		nc.Counted = func(k xport.OpKind) bool { return k == xport.OpWrite }
		nc.FaultAt = map[int]xport.FaultKind{r.Range(0, 2): []xport.FaultKind{xport.FaultErr, xport.FaultShort, xport.FaultTimeout, xport.FaultEOF}[r.Intn(4)]}
		nc.Sticky = true
		c := newConn(nc, cfg, nil, v)
		c.EnableWriteCompression(true)
		if err := c.SetCompressionLevel(level); err != nil {
			out.Violate("C11:w4-setup", fmt.Sprintf("SetCompressionLevel(%d): %v", level, err), nil)
			return
		}
		w, err := c.NextWriter(r.Range(1, 2))
		if err != nil {
			out.Violate("C11:w4-setup", fmt.Sprintf("NextWriter on a fresh connection: %v", err), nil)
			return
		}
		big := r.Bytes(r.Range(20000, 60000)) // incompressible: frames are flushed from inside Write
		_, werr := w.Write(big)
		closes := r.Range(1, 3)
		for k := 0; k < closes; k++ {
			cerr := w.Close()
			if k == 0 && werr == nil && cerr == nil && nc.FaultsHit > 0 {
				out.Violate("C11:w4-failed-writer-reports-success", "the transport failed during the message and neither Write nor Close reported it", nil)
				return
			}
		}
		if closes > 1 {
			extra++
		}
	}
	out.Count("w4_failed_compressed_writers_closed_again", int64(extra))
	n := r.Range(4, 12)
	type one struct {
		cfg  Cfg
		nc   *xport.Conn
		c    *ws.Conn
		sent [][]byte
		err  error
	}
	conns := make([]*one, n)
	for i := range conns {
		cfg := Cfg{Server: r.Bool(), RB: 256, WB: []int{128, 512, 4096}[r.Intn(3)], Comp: true}
		nc := xport.New(nil)
		o := &one{cfg: cfg, nc: nc, c: newConn(nc, cfg, nil, 100+i)}
		o.c.EnableWriteCompression(true)
		o.c.SetCompressionLevel(level)
		for m := r.Range(1, 3); m > 0; m-- {
			p := r.Payload(r.Intn(gen.NPayloadClasses), []int{10, 300, 5000, 20000}[r.Intn(4)])
			o.sent = append(o.sent, append([]byte{byte(i), byte(m)}, p...))
		}
		conns[i] = o
	}
	// every connection opens its writer, waits until all have one open, then writes in pieces
	var wg, opened sync.WaitGroup
	opened.Add(n)
	for _, o := range conns {
		wg.Add(1)
		go func(o *one) {
			defer wg.Done()
			first := true
			for _, p := range o.sent {
				w, err := o.c.NextWriter(2)
				if first {
					first = false
					opened.Done()
					opened.Wait()
				}
				if err != nil {
					o.err = err
					return
				}
				for off := 0; off < len(p); {
					e := off + 1 + len(p)/3
					if e > len(p) {
						e = len(p)
					}
					if _, err := w.Write(p[off:e]); err != nil {
						o.err = err
						return
					}
					off = e
					runtime.Gosched()
				}
				if err := w.Close(); err != nil {
					o.err = err
					return
				}
			}
		}(o)
	}
	wg.Wait()
	out.Count("w4_runs", 1)
	for i, o := range conns {
		if o.err != nil {
			out.Violate("C11:w4-healthy-connection-fails", fmt.Sprintf("connection %d of %d (level %d) after %d failed compressed writers elsewhere: %v", i, n, level, nv, o.err), nil)
			return
		}
		frames, rest, derr := wire.Decode(o.nc.Written())
		out.Count("frames_decoded", int64(len(frames)))
		msgs, open, v := wire.Validate(frames, !o.cfg.Server, true)
		if derr != nil || len(rest) > 0 || v != nil || open != nil || len(msgs) != len(o.sent) {
			out.Violate("C11:w4-shared-flate-state-corrupts-stream", fmt.Sprintf("connection %d of %d: decode err=%v validate=%v messages=%d want %d", i, n, derr, v, len(msgs), len(o.sent)), map[string]interface{}{"frames": framesDesc(frames, 12)})
			return
		}
		for k := range msgs {
			if !bytes.Equal(msgs[k].Data, o.sent[k]) {
				out.Violate("C11:w4-shared-flate-state-corrupts-stream", fmt.Sprintf("connection %d of %d, message %d: payload differs from what this connection sent (first difference at %d)", i, n, k, diffAt(msgs[k].Data, o.sent[k])), nil)
				return
			}
		}
	}
	out.Eval(fmt.Sprintf("W4 level=%d failed=%d healthy=%d", level, nv, n), true)
	if ctx.Idx%400 == 19 {
		out.Sample(map[string]interface{}{"scenario": "W4", "level": level, "failed_writers": nv, "closed_again": extra, "healthy_connections": n})
	}
}
