package props

import (
	"fmt"
	"os"
	"strings"

	"verif/internal/core"
	"verif/internal/gen"
	"verif/internal/httpx"
)

func init() {
	core.Register(&core.Prop{
		ID:    "C13",
		Level: "exploration",
		Rule: "case = (Host, Origin) with the Origin CONSTRUCTED relative to the Host so the expected answer is known: identical / ASCII case variants (must be upgraded) vs. one-character substitutions, insertions and deletions, added or removed labels, prefix/suffix look-alikes, different/missing/extra port, userinfo and path/fragment tricks, Unicode look-alikes (U+212A, U+017F, fullwidth), a different invalid byte in place of an invalid byte, null, empty, junk (must get 403); " +
			"hosts: names, name:port, IPv4, bracketed IPv6 with and without port, IDN/punycode, hosts with bytes >= 0x80; 1 of 4 cases goes through a real net/http server (exotic hosts via an absolute-form request target); distinct = hash(Host, Origin); non-trivial = an Origin header is present",
		Variants: core.PlainOnly,
		Cases: func(tier, variant string) int {
			if tier == "thorough" {
				return 800000
			}
			return 120000
		},
		Run:      runC13,
		Required: []string{"same_origin_accepted", "cross_origin_refused", "real_server_cases", "cases_with_deployment_context", "cases_with_further_connection_tokens"},
		Assumptions: []string{
			"origins whose host needs percent-decoding, scheme-less origins and origins with userinfo in front of the genuine host are not generated (the property does not decide them)",
		},
	})
}

var c13Hosts = []string{
	"example.com", "Example.COM", "a.b-c.example.org", "example.com:8080", "EXAMPLE.com:443", "10.0.0.1", "10.0.0.1:81", "[2001:db8::1]", "[2001:DB8::a]:8443", "[::1]",
	"localhost", "localhost:3000", "127.0.0.1:8080", "127.0.0.1", "[::1]:9000", "xn--bcher-kva.example", "kelvin.example", "ss.example", "k.example", "s", "sk-api.internal:9443",
	"a\xffb.example", "caf\xc3\xa9.example", "\xc3\xa9", "x\x80\x81.example:80",
}

func isExotic(h string) bool {
	for i := 0; i < len(h); i++ {
		if h[i] >= 0x80 {
			return true
		}
	}
	return false
}

// mutateHost returns a host(:port) that differs from h under ASCII folding.
func mutateHost(r *gen.R, h string) (string, string) {
	name, port := h, ""
	if i := strings.LastIndex(h, ":"); i > strings.LastIndex(h, "]") {
		name, port = h[:i], h[i:]
	}
	const al = "abcdefghijklmnopqrstuvwxyz0123456789-."
	for try := 0; try < 100; try++ {
		var m, kind string
		switch r.Intn(22) {
		case 19:
			// one byte with its top bit set (what a table indexed with b&0x7f would fold back)
			b := []byte(name)
			i := r.Intn(len(b))
			if b[i] >= 0x80 {
				continue
			}
			if r.Bool() && (b[i]|0x20) >= 'a' && (b[i]|0x20) <= 'z' {
				b[i] ^= 0x20
			}
			b[i] |= 0x80
			m, kind = string(b)+port, "top-bit-set-lookalike"
		case 20, 21:
			// another spelling of the loopback host, same port
			lb := map[string][]string{"localhost": {"127.0.0.1", "[::1]", "127.0.0.2", "LOCALHOST."}, "[::1]": {"localhost", "127.0.0.1", "[0:0:0:0:0:0:0:1]"}, "127.0.0.1": {"localhost", "[::1]", "127.1", "127.0.0.2"}}
			alts, ok := lb[strings.ToLower(name)]
			if !ok {
				continue
			}
			m, kind = alts[r.Intn(len(alts))]+port, "other-loopback-spelling"
		case 16:
			// the same name with an empty port, or the port with nothing behind the colon removed
			if port == "" {
				m, kind = name+":", "empty-port"
			} else {
				m, kind = name+":", "empty-port-instead-of-port"
			}
		case 17:
			// brackets around something that is not an IPv6 literal
			if strings.HasPrefix(name, "[") {
				m, kind = strings.Trim(name, "[]")+port, "ipv6-without-brackets"
			} else {
				m, kind = "["+name+"]"+port, "bracketed-name"
			}
		case 18:
			m, kind = name+port+"/", "slash-inside-host-field" // only meaningful as a Host mutation
			continue
		case 0:
			b := []byte(name)
			i := r.Intn(len(b))
			b[i] = al[r.Intn(len(al))]
			m, kind = string(b)+port, "substitute-char"
		case 1:
			i := r.Intn(len(name) + 1)
			m, kind = name[:i]+string(al[r.Intn(len(al))])+name[i:]+port, "insert-char"
		case 2:
			if len(name) < 2 {
				continue
			}
			i := r.Intn(len(name))
			m, kind = name[:i]+name[i+1:]+port, "delete-char"
		case 3:
			m, kind = "evil."+name+port, "added-label-front"
		case 4:
			m, kind = name+".evil.net"+port, "added-label-back"
		case 5:
			if i := strings.Index(name, "."); i > 0 {
				m, kind = name[i+1:]+port, "removed-label"
			} else {
				continue
			}
		case 6:
			m, kind = "x"+name+port, "prefix-lookalike"
		case 7:
			m, kind = name+"x"+port, "suffix-lookalike"
		case 8:
			if port == "" {
				m, kind = name+[]string{":80", ":443", ":8080", ":0"}[r.Intn(4)], "extra-port"
			} else {
				m, kind = name, "missing-port"
			}
		case 9:
			if port == "" {
				continue
			}
			m, kind = name+port+"0", "different-port"
		case 10:
			// Unicode characters that fold to ASCII letters under Unicode (not ASCII) folding
			repl := map[byte]string{'k': "K", 'K': "K", 's': "ſ", 'S': "ſ"}
			idx := -1
			for i := 0; i < len(name); i++ {
				if _, ok := repl[name[i]]; ok && (idx < 0 || r.Bool()) {
					idx = i
				}
			}
			if idx < 0 {
				continue
			}
			m, kind = name[:idx]+repl[name[idx]]+name[idx+1:]+port, "unicode-fold-lookalike"
		case 11:
			// fullwidth letter
			idx := -1
			for i := 0; i < len(name); i++ {
				if name[i] >= 'a' && name[i] <= 'z' && (idx < 0 || r.Bool()) {
					idx = i
				}
			}
			if idx < 0 {
				continue
			}
			m, kind = name[:idx]+string(rune(0xff41+int(name[idx]-'a')))+name[idx+1:]+port, "fullwidth-lookalike"
		case 12:
			// a different invalid/high byte in place of a high byte
			idx := -1
			for i := 0; i < len(name); i++ {
				if name[i] >= 0x80 && (idx < 0 || r.Bool()) {
					idx = i
				}
			}
			if idx < 0 {
				continue
			}
			b := []byte(name)
			switch r.Intn(3) {
			case 0:
				b[idx] ^= 0x01
			case 1:
				b[idx] = 0xfe
			default:
				m, kind = name[:idx]+"�"+name[idx+1:]+port, "replacement-char-for-invalid-byte"
			}
			if m == "" {
				m, kind = string(b)+port, "different-high-byte"
			}
		case 13:
			m, kind = "evil.example.net", "other-host"
		case 14:
			if strings.HasPrefix(name, "[") {
				m, kind = "[2001:db8::2]"+port, "other-ipv6"
			} else {
				m, kind = strings.Replace(name, ".", "-", 1)+port, "dot-to-dash"
			}
		default:
			m, kind = name+"."+port, "trailing-dot"
		}
		if m != "" && !httpx.ASCIIEqualFold(m, h) {
			return m, kind
		}
	}
	return "evil.example.net", "other-host"
}

// c13History: the same Origin string is presented for different Hosts in one
// process (accepted where it is same-origin, then again where it is foreign):
// the verdict must not depend on what was accepted before.
func c13History(ctx *core.Ctx, out *core.Out) {
	r := ctx.R
	hosts := []string{"bank.example", "shop.example", "shop.example:8443", "10.0.0.1", "[2001:db8::1]"}
	a := hosts[r.Intn(len(hosts))]
	b := hosts[r.Intn(len(hosts))]
	for b == a {
		b = hosts[r.Intn(len(hosts))]
	}
	origin := []string{"https://", "http://"}[r.Intn(2)] + b
	u := upCfg{SubNil: true, RespNil: true}
	try := func(host string) bool {
		q := &hsReq{H: map[string][]string{}, Classes: map[string]string{}, classOf: map[string]int{}, Host: host, Target: "/ws", Method: "GET"}
		q.set("Connection", []string{"Upgrade"}, cValid)
		q.set("Upgrade", []string{"websocket"}, cValid)
		q.set("Sec-Websocket-Version", []string{"13"}, cValid)
		q.set("Sec-Websocket-Key", []string{someKey}, cValid)
		q.set("Origin", []string{origin}, cValid)
		return q.direct(u).conn != nil
	}
	steps := []struct {
		host string
		want bool
	}{{a, false}, {b, true}, {a, false}, {b, true}, {a, false}}
	out.Eval(fmt.Sprintf("hist|%s|%s|%s", a, b, origin), true)
	for i, st := range steps {
		got := try(st.host)
		if got != st.want {
			sig := "cross-origin-accepted:after-same-origin-was-accepted-elsewhere"
			if st.want {
				sig = "same-origin-refused"
			}
			out.Violate("C13:"+sig, fmt.Sprintf("step %d of the sequence: Host %q with Origin %q was upgraded=%v, expected %v (earlier steps presented the same Origin to other Hosts)", i, st.host, origin, got, st.want), map[string]interface{}{"host_a": a, "host_b": b, "origin": origin})
			return
		}
		if st.want {
			out.Count("same_origin_accepted", 1)
		} else {
			out.Count("cross_origin_refused", 1)
		}
	}
	out.Count("history_sequences", 1)
}

func runC13(ctx *core.Ctx, out *core.Out) {
	r := ctx.R
	if ctx.Idx%8 == 5 {
		c13History(ctx, out)
		return
	}
	host := c13Hosts[r.Intn(len(c13Hosts))]
	realMode := ctx.Idx%4 == 3 || os.Getenv("WSVERIF_C13_REAL") == "1"
	var origin []string
	foreign := "evil.example.net" // the host the foreign origin names (for forwarding headers that repeat it)
	wantAccept := true
	kind := "no-origin"
	scheme := []string{"http", "https", "http", "https", "ws", "chrome-extension", "file"}[r.Intn(7)]
	switch k := r.Intn(20); {
	case k == 0:
	case k < 6:
		// identical or case variant
		o := host
		if !isExotic(host) || true {
			b := []byte(o)
			for i := range b {
				if r.Bool() {
					if b[i] >= 'a' && b[i] <= 'z' {
						b[i] -= 32
					} else if b[i] >= 'A' && b[i] <= 'Z' {
						b[i] += 32
					}
				}
			}
			if r.Bool() {
				o = string(b)
			}
		}
		origin = []string{scheme + "://" + o + []string{"", "", "/", "/p/a?q=1"}[r.Intn(4)]}
		kind = "same-origin"
	case k < 15:
		m, mk := mutateHost(r, host)
		origin = []string{scheme + "://" + m + []string{"", "", "/"}[r.Intn(3)]}
		wantAccept, kind = false, mk
		foreign = m
	case k == 15:
		origin = []string{scheme + "://" + host + "@evil.example.net"}
		wantAccept, kind = false, "userinfo-trick"
	case k == 16:
		origin = []string{scheme + "://evil.example.net/" + host}
		wantAccept, kind = false, "host-in-path"
	case k == 17:
		origin = []string{scheme + "://evil.example.net#@" + host}
		wantAccept, kind = false, "host-in-fragment"
	case k == 18:
		origin = []string{[]string{"null", "", "   x", "http://", "https:///", "://" + host, "http:/" + host, "http:" + host, "%%%", "http://[" + host, "http://" + host + ":port"}[r.Intn(11)]}
		wantAccept, kind = false, "junk:"+origin[0]
	default:
		origin = []string{scheme + "://evil.example.net", scheme + "://" + host}
		wantAccept, kind = false, "two-origin-lines-first-foreign"
	}
	u := upCfg{SubNil: true, RespNil: true}
	if r.Chance(1, 3) {
		// where the handler is deployed is no part of the origin policy
		u.Deploy = genDeploy(r, origin)
		out.Count("cases_with_deployment_context", 1)
	}
	q := &hsReq{H: map[string][]string{}, Classes: map[string]string{}, classOf: map[string]int{}, Host: host, Target: "/ws", Method: "GET"}
	// other tokens a client or an intermediary may list in Connection (all valid token lists
	// containing "upgrade"): none of them changes which Origin the request carries
	connVal := "Upgrade"
	if r.Chance(1, 4) {
		connVal = []string{"Upgrade, Origin", "origin, upgrade", "keep-alive, Upgrade", "Upgrade, Host", "Upgrade, Sec-WebSocket-Key, Origin", "Upgrade, Cookie", "TE, Upgrade, Origin", "Upgrade, X-Forwarded-Host"}[r.Intn(8)]
		out.Count("cases_with_further_connection_tokens", 1)
	}
	q.set("Connection", []string{connVal}, cValid)
	q.set("Upgrade", []string{"websocket"}, cValid)
	q.set("Sec-Websocket-Version", []string{"13"}, cValid)
	q.set("Sec-Websocket-Key", []string{someKey}, cValid)
	q.set("Origin", origin, cValid)
	// other headers a browser or an intermediary may add: none of them is part of the policy
	var extra []string
	if r.Chance(1, 3) {
		cands := [][2]string{{"Sec-Fetch-Site", "same-origin"}, {"Sec-Fetch-Site", "cross-site"}, {"Sec-Fetch-Mode", "websocket"}, {"Referer", "http://" + host + "/page"}, {"X-Forwarded-Host", host},
			{"X-Forwarded-Proto", "https"}, {"Forwarded", "host=" + host}, {"X-Original-Host", host},
			{"X-Forwarded-Host", foreign}, {"X-Forwarded-Host", foreign + ", " + host}, {"Forwarded", "host=" + foreign}, {"X-Original-Host", foreign}, {"X-Host", foreign}, {"X-Forwarded-Server", foreign}, {"Access-Control-Request-Headers", "origin"}, {"Cookie", "session=1"}, {"X-Requested-With", "XMLHttpRequest"}}
		for i, n := 0, r.Range(1, 3); i < n; i++ {
			c := cands[r.Intn(len(cands))]
			if _, dup := q.H[c[0]]; !dup && !isExotic(c[1]) {
				q.set(c[0], []string{c[1]}, cValid)
				extra = append(extra, c[0]+": "+c[1])
			}
		}
	}
	desc := map[string]interface{}{"deployment": u.Deploy, "other_headers": extra, "host": fmt.Sprintf("%q", host), "origin": fmt.Sprintf("%q", origin), "construction": kind, "connection": connVal, "must_accept": wantAccept, "mode": map[bool]string{true: "real net/http server", false: "direct"}[realMode]}
	out.Eval(fmt.Sprintf("%q|%q", host, origin), origin != nil)
	var o *hsOutcome
	if realMode {
		if isExotic(host) {
			// reachable only through an absolute-form request target
			q.Target = "http://" + host + "/ws"
			q.Host = "front.example"
			desc["request_target"] = fmt.Sprintf("%q", q.Target)
		}
		var msg string
		o, msg = q.real(u, r)
		out.Count("real_server_cases", 1)
		if o == nil {
			out.Inconcl("real-server exchange failed: " + msg)
			return
		}
		if o.byNetHTTP {
			out.Count("answered_by_net_http_itself", 1)
			return
		}
	} else {
		o = q.direct(u)
	}
	upgraded := o.conn != nil
	status := o.status
	if o.serverSide {
		if h, err := httpx.ParseResponse(o.raw); err == nil {
			status = h.Status
		}
	}
	switch {
	case wantAccept && !upgraded:
		out.Violate("C13:same-origin-refused", fmt.Sprintf("a same-origin request (%s) was refused: %v (status %d)", kind, o.err, status), desc)
	case wantAccept:
		out.Count("same_origin_accepted", 1)
	case upgraded:
		sig := "cross-origin-accepted:" + kind
		if strings.HasPrefix(kind, "junk:") {
			sig = "cross-origin-accepted:junk"
		}
		out.Violate("C13:"+sig, fmt.Sprintf("Origin %q was accepted for Host %q (%s)", origin, host, kind), desc)
	default:
		out.Count("cross_origin_refused", 1)
		if status != 403 {
			out.Violate("C13:refusal-status", fmt.Sprintf("a foreign origin was refused with status %d instead of 403", status), desc)
		}
	}
	if ctx.Idx%3001 == 0 {
		out.Sample(desc)
	}
}
