// Package props holds one monitor per property plus the execution engines
// they share.
package props

import (
	"bytes"
	"encoding/json"
	"errors"
	"fmt"
	"io"
	"strings"
	"sync"
	"time"

	ws "github.com/gorilla/websocket"

	"verif/internal/gen"
	"verif/internal/wire"
	"verif/internal/xport"
)

// ---------------------------------------------------------------- config

// Cfg describes one endpoint.
type Cfg struct {
	Server bool `json:"server"` // role of the Conn under observation
	RB     int  `json:"rb"`
	WB     int  `json:"wb"`
	Pool   bool `json:"pool"`
	Comp   bool `json:"comp"` // permessage-deflate negotiated
}

func genCfg(r *gen.R) Cfg {
	return Cfg{Server: r.Bool(), RB: r.BufSize(), WB: r.BufSize(), Pool: r.Chance(1, 3), Comp: r.Chance(2, 5)}
}

func (c Cfg) String() string {
	role := "client"
	if c.Server {
		role = "server"
	}
	return fmt.Sprintf("%s rb=%d wb=%d pool=%v comp=%v", role, c.RB, c.WB, c.Pool, c.Comp)
}

// ---------------------------------------------------------------- pool

// PoolEvent is one Get or Put seen by the instrumented pool.
type PoolEvent struct {
	Conn   int
	Put    bool
	Ptr    *byte // identity of the buffer (nil for a Get on an empty pool)
	Len    int
	Note   string
	Poison bool // Get: poison of the returned buffer was intact
}

const poisonByte = 0xDB

// TrackPool is a shared free list whose front-ends attribute events to
// connections. Put poisons the buffer; Get and Audit verify the poison.
type TrackPool struct {
	mu      sync.Mutex
	free    []interface{}
	Events  []PoolEvent
	Faults  []string
	NoReuse bool // never hand buffers back (forces allocation path)
	// PutDelay, if set, runs at the start of every Put, outside the pool's lock (an application
	// pool may be slow; it widens whatever window the library leaves around returning a buffer)
	PutDelay func()
	held     map[int]int
	nev      map[int]int
}

func (p *TrackPool) note(conn, delta int) {
	if p.held == nil {
		p.held, p.nev = map[int]int{}, map[int]int{}
	}
	p.held[conn] += delta
	p.nev[conn]++
}

type poolFront struct {
	p    *TrackPool
	conn int
}

func (p *TrackPool) Front(conn int) ws.BufferPool { return &poolFront{p, conn} }

func (f *poolFront) Get() interface{} {
	p := f.p
	p.mu.Lock()
	defer p.mu.Unlock()
	if len(p.free) == 0 || p.NoReuse {
		p.Events = append(p.Events, PoolEvent{Conn: f.conn})
		p.note(f.conn, 1)
		return nil
	}
	v := p.free[len(p.free)-1]
	p.free = p.free[:len(p.free)-1]
	buf, _ := ws.VerifPoolBuf(v)
	ok := poisonIntact(buf)
	if !ok {
		p.Faults = append(p.Faults, fmt.Sprintf("conn %d: buffer %p was written after it had been returned to the pool", f.conn, &buf[0]))
	}
	var ptr *byte
	if len(buf) > 0 {
		ptr = &buf[0]
	}
	p.Events = append(p.Events, PoolEvent{Conn: f.conn, Ptr: ptr, Len: len(buf), Poison: ok})
	p.note(f.conn, 1)
	return v
}

func (f *poolFront) Put(v interface{}) {
	p := f.p
	if p.PutDelay != nil {
		p.PutDelay()
	}
	p.mu.Lock()
	defer p.mu.Unlock()
	buf, ok := ws.VerifPoolBuf(v)
	if !ok {
		p.Faults = append(p.Faults, fmt.Sprintf("conn %d: Put of a foreign value %T", f.conn, v))
		return
	}
	var ptr *byte
	if len(buf) > 0 {
		ptr = &buf[0]
	}
	for _, fv := range p.free {
		fb, _ := ws.VerifPoolBuf(fv)
		if len(fb) > 0 && len(buf) > 0 && &fb[0] == &buf[0] {
			p.Faults = append(p.Faults, fmt.Sprintf("conn %d: buffer %p put twice", f.conn, ptr))
		}
	}
	for i := range buf {
		buf[i] = poisonByte
	}
	p.Events = append(p.Events, PoolEvent{Conn: f.conn, Put: true, Ptr: ptr, Len: len(buf)})
	p.note(f.conn, -1)
	p.free = append(p.free, v)
}

func poisonIntact(b []byte) bool {
	for _, x := range b {
		if x != poisonByte {
			return false
		}
	}
	return true
}

// Audit checks the poison of every free buffer.
func (p *TrackPool) Audit() {
	p.mu.Lock()
	defer p.mu.Unlock()
	for _, v := range p.free {
		buf, _ := ws.VerifPoolBuf(v)
		if !poisonIntact(buf) {
			p.Faults = append(p.Faults, fmt.Sprintf("buffer %p in the free list was written after release", &buf[0]))
		}
	}
}

// Outstanding returns gets-minus-puts for a connection and the event count.
func (p *TrackPool) Outstanding(conn int) (held int, events int) {
	p.mu.Lock()
	defer p.mu.Unlock()
	return p.held[conn], p.nev[conn]
}

func (p *TrackPool) Snapshot() ([]PoolEvent, []string) {
	p.mu.Lock()
	defer p.mu.Unlock()
	return append([]PoolEvent(nil), p.Events...), append([]string(nil), p.Faults...)
}

// newConn builds a Conn over nc per cfg through the verif hook.
func newConn(nc *xport.Conn, cfg Cfg, pool *TrackPool, id int) *ws.Conn {
	var bp ws.BufferPool
	if cfg.Pool && pool != nil {
		bp = pool.Front(id)
	}
	return ws.VerifNewConn(nc, cfg.Server, cfg.RB, cfg.WB, bp, nil, cfg.Comp)
}

// ---------------------------------------------------------------- write programs

const (
	WMsg      = iota // WriteMessage(data)
	WNext            // NextWriter + parts + Close (or left open: implicit close)
	WJSON            // WriteJSON
	WPrepared        // WritePreparedMessage
	WControl         // WriteControl ping/pong
	WCtlMsg          // ping/pong through WriteMessage
	WCtlNext         // ping/pong through NextWriter/Write/Close
	WSetComp         // EnableWriteCompression
	WSetLevel        // SetCompressionLevel (possibly invalid)
	WDeadline        // SetWriteDeadline(unique instant)
	WInvalid         // an invalid request
	WClose           // a close sent by some path (C09)
	WJSONBad         // WriteJSON of a value encoding/json cannot encode (C20)
)

const (
	PartWrite = iota
	PartWriteString
	PartReadFrom
)

type Part struct {
	How int `json:"how"`
	N   int `json:"n"`
	// ReadFrom source behaviour
	Piece   int  `json:"piece,omitempty"`   // max bytes per Read of the source
	EOFWith bool `json:"eofwith,omitempty"` // last data returned together with io.EOF
	Zero    bool `json:"zero,omitempty"`    // one (0,nil) read in the middle
	// Fail: the source fails (an error of its own, not io.EOF) after half of the part; the
	// application then closes the writer, sending what it had written so far
	Fail bool `json:"source_fails,omitempty"`
}

var errSource = errors.New("verif: the ReadFrom source failed")

type WStep struct {
	Kind     int    `json:"k"`
	Type     int    `json:"t,omitempty"`
	Size     int    `json:"n,omitempty"`
	Class    int    `json:"c,omitempty"`
	Parts    []Part `json:"parts,omitempty"`
	Explicit bool   `json:"explicit,omitempty"` // WNext: Close called explicitly
	Enable   bool   `json:"enable,omitempty"`
	Level    int    `json:"level,omitempty"`
	Invalid  int    `json:"invalid,omitempty"`
	Path     int    `json:"path,omitempty"` // WClose: which path
	Code     int    `json:"code,omitempty"`
	DL       int64  `json:"dl,omitempty"` // deadline identifier (unix seconds offset)

	payload []byte
	jsonVal interface{}
}

func (s WStep) Desc() string {
	names := []string{"WriteMessage", "NextWriter", "WriteJSON", "Prepared", "WriteControl", "CtlViaWriteMessage", "CtlViaNextWriter", "EnableWriteCompression", "SetCompressionLevel", "SetWriteDeadline", "Invalid", "Close", "WriteJSON(unencodable)"}
	d := names[s.Kind]
	switch s.Kind {
	case WMsg, WNext, WJSON, WPrepared, WControl, WCtlMsg, WCtlNext:
		d += fmt.Sprintf("(t=%d,n=%d", s.Type, len(s.payload))
		if s.Kind == WNext {
			d += fmt.Sprintf(",parts=%d,explicit=%v", len(s.Parts), s.Explicit)
		}
		d += ")"
	case WSetComp:
		d += fmt.Sprintf("(%v)", s.Enable)
	case WSetLevel:
		d += fmt.Sprintf("(%d)", s.Level)
	case WInvalid:
		d += fmt.Sprintf("(#%d)", s.Invalid)
	case WClose:
		d += fmt.Sprintf("(path=%d,code=%d)", s.Path, s.Code)
	}
	return d
}

// ProgOpts tunes write-program generation.
type ProgOpts struct {
	MaxMsgs     int
	MaxSize     int
	Invalid     bool // include invalid requests
	Deadlines   bool // include SetWriteDeadline steps with unique instants
	NoCtlViaMsg bool // do not send control messages through WriteMessage/NextWriter
	FailSource  bool // include ReadFrom parts whose source fails
	BadJSON     bool // include WriteJSON calls with unencodable values
}

func genParts(r *gen.R, n int) []Part {
	var parts []Part
	for _, k := range r.Splits(n) {
		p := Part{How: r.Intn(3), N: k}
		if p.How == PartReadFrom {
			p.Piece = []int{1, 3, 7, 64, 1000, 1 << 20}[r.Intn(6)]
			p.EOFWith = r.Bool()
			p.Zero = r.Chance(1, 6)
		}
		parts = append(parts, p)
	}
	if len(parts) == 0 && r.Bool() {
		parts = append(parts, Part{How: r.Intn(3), N: 0, Piece: 8})
	}
	return parts
}

func genJSONVal(r *gen.R) interface{} {
	switch r.Intn(4) {
	case 0:
		return string(r.Payload(gen.PText, r.Range(0, 300)))
	case 1:
		n := r.Range(0, 2000)
		xs := make([]int, n)
		for i := range xs {
			xs[i] = r.Intn(100000)
		}
		return xs
	case 2:
		return map[string]interface{}{"a": r.Intn(100), "b": string(r.Payload(gen.PText, r.Range(0, 5000))), "c<>&": []string{"x", "y "}}
	default:
		return float64(r.Intn(1000)) / 8
	}
}

// genProgram draws a write program for cfg.
func genProgram(r *gen.R, cfg Cfg, o ProgOpts) []WStep {
	var prog []WStep
	nmsg := r.Range(1, o.MaxMsgs)
	open := false // a NextWriter left open by the previous step
	dl := int64(1)
	for m := 0; m < nmsg; m++ {
		// optional setting changes / control / invalid between messages
		for r.Chance(1, 3) {
			switch r.Intn(6) {
			case 0:
				prog = append(prog, WStep{Kind: WSetComp, Enable: r.Bool()})
			case 1:
				lv := r.Range(-2, 9)
				if r.Chance(1, 5) {
					lv = []int{-3, 10, 100, -100}[r.Intn(4)]
				}
				prog = append(prog, WStep{Kind: WSetLevel, Level: lv})
			case 2, 3:
				s := WStep{Kind: WControl, Type: 9 + r.Intn(2), Size: r.Range(0, 125), Class: r.Intn(gen.NPayloadClasses)}
				if r.Chance(1, 4) {
					s.Size = []int{0, 1, 124, 125}[r.Intn(4)]
				}
				if o.Deadlines {
					dl++
					s.DL = dl
					if r.Chance(1, 4) {
						s.DL = 0
					}
				}
				s.payload = r.Payload(s.Class, s.Size)
				prog = append(prog, s)
			case 4:
				if o.Invalid {
					prog = append(prog, WStep{Kind: WInvalid, Invalid: r.Intn(nInvalid)})
					open = false
				}
			case 5:
				if o.Deadlines {
					dl++
					s := WStep{Kind: WDeadline, DL: dl}
					if r.Chance(1, 4) {
						s.DL = 0
					}
					prog = append(prog, s)
				}
			}
		}
		s := WStep{Type: 1 + r.Intn(2), Class: r.Intn(gen.NPayloadClasses)}
		s.Size = r.BoundarySize(cfg.WB, o.MaxSize)
		k := r.Intn(20)
		switch {
		case k < 6:
			s.Kind = WMsg
		case k < 13:
			s.Kind = WNext
			s.Explicit = !r.Chance(1, 3)
		case k < 15:
			s.Kind = WJSON
		case k < 17:
			s.Kind = WPrepared
			if open {
				s.Kind = WMsg
			}
		case k < 18 && !o.NoCtlViaMsg:
			s.Kind = WCtlMsg
		case k < 19 && !o.NoCtlViaMsg:
			s.Kind = WCtlNext
		default:
			s.Kind = WMsg
		}
		switch s.Kind {
		case WJSON:
			s.Type = 1
			s.jsonVal = genJSONVal(r)
			b, _ := json.Marshal(s.jsonVal)
			s.payload = append(b, '\n')
			s.Size = len(s.payload)
		case WCtlMsg, WCtlNext:
			s.Type = 9 + r.Intn(2)
			s.Size = r.Range(0, 125)
			if r.Chance(1, 3) {
				s.Size = []int{0, 124, 125}[r.Intn(3)]
			}
			s.payload = r.Payload(s.Class, s.Size)
			if s.Kind == WCtlNext {
				s.Parts = genParts(r, s.Size)
				for i := range s.Parts {
					if s.Parts[i].How == PartReadFrom && s.Parts[i].Zero {
						s.Parts[i].Zero = false
					}
				}
				s.Explicit = true
			}
		default:
			s.payload = r.Payload(s.Class, s.Size)
			if s.Kind == WNext {
				s.Parts = genParts(r, s.Size)
				if o.FailSource && r.Chance(1, 4) {
					for i := range s.Parts {
						if s.Parts[i].How == PartReadFrom && s.Parts[i].N >= 2 {
							s.Parts[i].Fail = true
							s.Parts = s.Parts[:i+1]
							s.Explicit = true
							break
						}
					}
				}
			}
		}
		prog = append(prog, s)
		open = s.Kind == WNext && !s.Explicit
		if o.Invalid && r.Chance(1, 3) {
			prog = append(prog, WStep{Kind: WInvalid, Invalid: r.Intn(nInvalid)})
			open = false
		}
		if o.BadJSON && r.Chance(1, 4) {
			prog = append(prog, WStep{Kind: WJSONBad})
			open = false
		}
	}
	return prog
}

// oddReader feeds ReadFrom in awkward ways.
type oddReader struct {
	failAt  int // > 0: return errSource once this many bytes have been delivered
	given   int
	data    []byte
	piece   int
	eofWith bool
	zero    bool
	calls   int
}

func (o *oddReader) Read(p []byte) (int, error) {
	o.calls++
	if o.zero && o.calls == 2 {
		return 0, nil
	}
	if o.failAt > 0 && o.given >= o.failAt {
		return 0, errSource
	}
	if len(o.data) == 0 {
		return 0, io.EOF
	}
	n := len(p)
	if n > o.piece {
		n = o.piece
	}
	if o.failAt > 0 && n > o.failAt-o.given {
		n = o.failAt - o.given
	}
	o.given += n
	if n > len(o.data) {
		n = len(o.data)
	}
	copy(p, o.data[:n])
	o.data = o.data[n:]
	if len(o.data) == 0 && o.eofWith {
		return n, io.EOF
	}
	return n, nil
}

// onlyWriter hides WriteString/ReadFrom so io.Copy/io.WriteString fall back.
type onlyReader struct{ r io.Reader }

func (o onlyReader) Read(p []byte) (int, error) { return o.r.Read(p) }

// Sent is what the application handed to the write API.
type Sent struct {
	Type int
	Data []byte
	Step int
	Err  error // what the write API returned for the call(s) completing it
	// Completed: the API reported the message as sent (nil from WriteMessage /
	// Close ...). For a writer left open this is decided at the implicit close.
	Completed bool
	// CompressedExpected: negotiated && write compression enabled && data message
	CompressedExpected bool
}

// Call is one public API call made by the Writer.
type Call struct {
	Step        int
	Name        string // WriteMessage NextWriter Write WriteString ReadFrom Close WriteControl WriteJSON NewPreparedMessage WritePreparedMessage SetWriteDeadline
	Err         error
	OpsBefore   int // transport log length when the call started / ended
	OpsAfter    int
	BytesBefore int
	BytesAfter  int
	Deadline    time.Time // WriteControl: its argument; others: the connection deadline in force
	Invalid     bool
}

// StepResult records the error of each step's calls.
type StepResult struct {
	Step int
	Errs []error // every call made for the step, in order
	Note string
}

// Writer executes write programs against a Conn.
type Writer struct {
	CloseStale       bool // RunProgram finally closes the writers that were left to the implicit close
	stale            []io.WriteCloser
	OversizeStreamed int // invalid requests "control payload over 125 bytes streamed into a NextWriter"
	C                *ws.Conn
	Cfg              Cfg
	Sent             []Sent
	Results          []StepResult
	open             io.WriteCloser
	openIdx          int // index in Sent of the message whose writer is open
	enabled          bool
	Base             time.Time
	AfterOp          func(step int, call string) // hook between calls (C09/C10 use it)
	StopOnEr         bool
	NC               *xport.Conn // when set, calls are bracketed with transport counters
	Calls            []Call
	CurDL            time.Time // deadline last given to SetWriteDeadline
	pending          Call
	OnCall           func(Call) // invoked right after every API call returns
	pendingOpen      bool       // a NextWriter step is between its parts (the writer is open but not yet registered)
}

func (w *Writer) begin(step int, name string) {
	w.pending = Call{Step: step, Name: name, Deadline: w.CurDL}
	if w.NC != nil {
		w.pending.OpsBefore = len(w.NC.Ops())
		w.pending.BytesBefore = w.NC.WrittenLen()
	}
}

func (w *Writer) end(err error) {
	w.pending.Err = err
	if w.NC != nil {
		w.pending.OpsAfter = len(w.NC.Ops())
		w.pending.BytesAfter = w.NC.WrittenLen()
	}
	w.Calls = append(w.Calls, w.pending)
	if w.OnCall != nil {
		w.OnCall(w.pending)
	}
}

func NewWriter(c *ws.Conn, cfg Cfg) *Writer {
	return &Writer{C: c, Cfg: cfg, enabled: true, openIdx: -1, Base: time.Unix(4000000000, 0)}
}

func (w *Writer) dl(id int64) time.Time {
	if id == 0 {
		return time.Time{}
	}
	return w.Base.Add(time.Duration(id) * time.Hour)
}

// HasOpen reports whether a NextWriter is currently left open.
func (w *Writer) HasOpen() bool { return w.open != nil }

// CloseOpen closes a writer left open (explicitly).
func (w *Writer) CloseOpen() error {
	if w.open == nil {
		return nil
	}
	w.begin(len(w.Results), "Close")
	err := w.open.Close()
	w.end(err)
	w.Sent[w.openIdx].Err = err
	w.Sent[w.openIdx].Completed = err == nil
	w.open, w.openIdx = nil, -1
	return err
}

// implicit: the next NextWriter/WriteMessage closes the open writer itself.
func (w *Writer) implicitClosed() {
	if w.open != nil {
		// the library closes it; its result is not reported to anyone. The
		// message counts as sent iff the transport shows it (judged by callers).
		w.Sent[w.openIdx].Completed = true
		w.Sent[w.openIdx].Err = nil
		if w.CloseStale {
			w.stale = append(w.stale, w.open)
		}
		w.open, w.openIdx = nil, -1
	}
}

func (w *Writer) compressedNow(t int) bool {
	return w.Cfg.Comp && w.enabled && (t == 1 || t == 2)
}

// Do executes one step and returns the errors of its calls.
func (w *Writer) Do(i int, s WStep) StepResult {
	res := StepResult{Step: i}
	call := func(name string, f func() error) error {
		w.begin(i, name)
		err := f()
		w.end(err)
		res.Errs = append(res.Errs, err)
		return err
	}
	c := w.C
	closeOpen := func() {
		if w.open != nil {
			wr := w.open
			idx := w.openIdx
			w.open, w.openIdx = nil, -1
			err := call("Close", wr.Close)
			w.Sent[idx].Err = err
			w.Sent[idx].Completed = err == nil
		}
	}
	switch s.Kind {
	case WMsg, WCtlMsg:
		w.implicitClosed()
		err := call("WriteMessage", func() error { return c.WriteMessage(s.Type, s.payload) })
		w.Sent = append(w.Sent, Sent{Type: s.Type, Data: s.payload, Step: i, Err: err, Completed: err == nil, CompressedExpected: w.compressedNow(s.Type)})
	case WJSON:
		w.implicitClosed()
		err := call("WriteJSON", func() error { return c.WriteJSON(s.jsonVal) })
		w.Sent = append(w.Sent, Sent{Type: 1, Data: s.payload, Step: i, Err: err, Completed: err == nil, CompressedExpected: w.compressedNow(1)})
	case WPrepared:
		closeOpen()
		cp := append([]byte(nil), s.payload...)
		var pm *ws.PreparedMessage
		err := call("NewPreparedMessage", func() error {
			var e error
			pm, e = ws.NewPreparedMessage(s.Type, cp)
			return e
		})
		if err == nil {
			for j := range cp { // the caller's slice may be reused
				cp[j] ^= 0x5a
			}
			err = call("WritePreparedMessage", func() error { return c.WritePreparedMessage(pm) })
		}
		w.Sent = append(w.Sent, Sent{Type: s.Type, Data: s.payload, Step: i, Err: err, Completed: err == nil, CompressedExpected: w.compressedNow(s.Type)})
	case WNext, WCtlNext:
		w.implicitClosed()
		var wr io.WriteCloser
		err := call("NextWriter", func() error {
			var e error
			wr, e = c.NextWriter(s.Type)
			return e
		})
		snt := Sent{Type: s.Type, Data: s.payload, Step: i, Err: err, CompressedExpected: w.compressedNow(s.Type)}
		if err != nil {
			w.Sent = append(w.Sent, snt)
			break
		}
		off := 0
		var werr error
		for _, p := range s.Parts {
			chunk := s.payload[off : off+p.N]
			off += p.N
			var n int
			switch p.How {
			case PartWrite:
				werr = call("Write", func() error { var e error; n, e = wr.Write(chunk); return e })
			case PartWriteString:
				werr = call("WriteString", func() error { var e error; n, e = io.WriteString(wr, string(chunk)); return e })
			case PartReadFrom:
				if p.Fail {
					// the source breaks half-way: the writer itself is healthy; the application
					// sends what it has by closing the writer
					half := len(chunk) / 2
					var n64 int64
					serr := call("ReadFrom(failing source)", func() error {
						var e error
						n64, e = io.Copy(wr, onlyReader{&oddReader{data: chunk, piece: p.Piece, failAt: half}})
						if e == errSource {
							return nil // as far as the connection is concerned nothing failed
						}
						if e == nil {
							return fmt.Errorf("io.Copy swallowed the source's error")
						}
						return e
					})
					if serr == nil && int(n64) != half {
						serr = fmt.Errorf("short write %d of %d without error", n64, half)
						res.Note = serr.Error()
					}
					snt.Data = append([]byte(nil), s.payload[:off-p.N+half]...)
					n, werr = len(chunk), serr
					break
				}
				werr = call("ReadFrom", func() error {
					n64, e := io.Copy(wr, onlyReader{&oddReader{data: chunk, piece: p.Piece, eofWith: p.EOFWith, zero: p.Zero}})
					n = int(n64)
					return e
				})
			}
			if werr == nil && n != len(chunk) {
				werr = fmt.Errorf("short write %d of %d without error", n, len(chunk))
				res.Note = werr.Error()
			}
			if w.AfterOp != nil {
				w.AfterOp(i, "part")
			}
			if werr != nil {
				break
			}
		}
		if werr != nil {
			snt.Err = werr
			w.Sent = append(w.Sent, snt)
			call("Close", wr.Close)
			break
		}
		w.Sent = append(w.Sent, snt)
		if s.Explicit {
			cerr := call("Close", wr.Close)
			w.Sent[len(w.Sent)-1].Err = cerr
			w.Sent[len(w.Sent)-1].Completed = cerr == nil
		} else {
			w.open, w.openIdx = wr, len(w.Sent)-1
		}
	case WControl:
		w.begin(i, "WriteControl")
		w.pending.Deadline = w.dl(s.DL)
		err := c.WriteControl(s.Type, s.payload, w.dl(s.DL))
		w.end(err)
		res.Errs = append(res.Errs, err)
		w.Sent = append(w.Sent, Sent{Type: s.Type, Data: s.payload, Step: i, Err: err, Completed: err == nil})
	case WSetComp:
		c.EnableWriteCompression(s.Enable)
		w.enabled = s.Enable
	case WSetLevel:
		err := c.SetCompressionLevel(s.Level)
		valid := s.Level >= -2 && s.Level <= 9
		if valid && err != nil {
			res.Note = fmt.Sprintf("SetCompressionLevel(%d) refused: %v", s.Level, err)
		}
		if !valid && err == nil {
			res.Note = fmt.Sprintf("SetCompressionLevel(%d) accepted", s.Level)
		}
	case WDeadline:
		call("SetWriteDeadline", func() error { return c.SetWriteDeadline(w.dl(s.DL)) })
		w.CurDL = w.dl(s.DL)
	case WInvalid:
		w.doInvalid(i, s, &res)
	case WJSONBad:
		// the encoder fails before writing anything; WriteJSON still closes its writer, which
		// sends an empty text message, and reports the encoding error
		w.implicitClosed()
		w.begin(i, "WriteJSON")
		err := c.WriteJSON(map[string]interface{}{"unencodable": make(chan int)})
		w.end(err)
		if err == nil {
			res.Note = "WriteJSON of an unencodable value returned nil"
		}
		w.Sent = append(w.Sent, Sent{Type: 1, Data: []byte{}, Step: i, Err: nil, Completed: true, CompressedExpected: w.compressedNow(1)})
	}
	if w.AfterOp != nil {
		w.AfterOp(i, "step")
	}
	w.Results = append(w.Results, res)
	return res
}

var big126 = bytes.Repeat([]byte{'x'}, 126)
var big700 = bytes.Repeat([]byte{'y'}, 700)

// Invalid requests (C10). Each must fail and write nothing.
const nInvalid = 12

// doInvalid issues one invalid request; every call marked Invalid must fail.
func (w *Writer) doInvalid(i int, s WStep, res *StepResult) {
	c := w.C
	call := func(name string, mustFail bool, f func() error) error {
		w.begin(i, name)
		w.pending.Invalid = mustFail
		err := f()
		w.end(err)
		res.Errs = append(res.Errs, err)
		return err
	}
	switch s.Invalid {
	case 0, 1, 2, 3, 4:
		t := []int{0, 3, 7, 11, -1}[s.Invalid]
		w.implicitClosed()
		call("WriteMessage", true, func() error { return c.WriteMessage(t, []byte("abc")) })
	case 5:
		t := []int{0, 3, 7, 11, -1, 15, 257}[i%7]
		w.implicitClosed()
		call("NextWriter", true, func() error { _, e := c.NextWriter(t); return e })
	case 6:
		call("WriteControl", true, func() error { return c.WriteControl(9, big126, time.Time{}) })
	case 7:
		call("WriteControl", true, func() error { return c.WriteControl(1, []byte("abc"), time.Time{}) })
	case 8:
		w.implicitClosed()
		call("WriteMessage", true, func() error { return c.WriteMessage(9+i%2, big126) })
	case 9:
		// a control message the writer would have to fragment
		w.implicitClosed()
		var wr io.WriteCloser
		if call("NextWriter", false, func() error { var e error; wr, e = c.NextWriter(9 + i%2); return e }) == nil {
			call("Write", false, func() error { _, e := wr.Write(big700); return e })
			call("Close", true, wr.Close)
		}
	case 10, 11:
		// a control message of 126-205 bytes streamed into the writer: it fits the write buffer, so
		// only the 125-byte rule refuses it
		w.implicitClosed()
		var wr io.WriteCloser
		w.OversizeStreamed++
		if call("NextWriter", false, func() error { var e error; wr, e = c.NextWriter(8 + i%3); return e }) == nil {
			p := big700[:126+(i*7)%80]
			if s.Invalid == 10 {
				call("ReadFrom", false, func() error { _, e := io.Copy(wr, onlyReader{bytes.NewReader(p)}); return e })
			} else {
				call("WriteString", false, func() error { _, e := io.WriteString(wr, string(p)); return e })
			}
			call("Close", true, wr.Close)
		}
	}
}

// RunProgram executes a whole program and closes a trailing open writer.
func (w *Writer) RunProgram(prog []WStep) {
	for i, s := range prog {
		w.Do(i, s)
	}
	if w.open != nil {
		w.CloseOpen()
	}
	// the application still holds the writers the library closed for it; closing one of them now
	// is a message-level call like any other (it can only fail: the writer is closed)
	for _, st := range w.stale {
		w.begin(len(prog), "Close")
		w.end(st.Close())
	}
	w.stale = nil
}

// ---------------------------------------------------------------- read programs

const (
	RMsg = iota
	RNext
	RJSON
	NReadModes
)

// Got is one delivered message.
type Got struct {
	Type int
	Data []byte
	// ReadErr is the non-EOF error that ended a streamed read (nil when the
	// message ended with io.EOF / ReadMessage returned nil).
	ReadErr error
}

// HandlerEv is one control-handler invocation.
type HandlerEv struct {
	Kind    int // 8 close, 9 ping, 10 pong
	Payload string
	Code    int
	Seq     int64
}

// Reader executes read programs against a Conn.
type Reader struct {
	C        *ws.Conn
	Got      []Got
	Handlers []HandlerEv
	Err      error // terminal error of NextReader/ReadMessage
	seq      int64
}

// InstallRecordingHandlers wraps the default handlers so that they still
// answer (pong / close echo) but every invocation is logged.
func (rd *Reader) InstallRecordingHandlers() {
	c := rd.C
	dp, dq, dc := c.PingHandler(), c.PongHandler(), c.CloseHandler()
	c.SetPingHandler(func(s string) error {
		rd.seq++
		rd.Handlers = append(rd.Handlers, HandlerEv{Kind: 9, Payload: s, Seq: rd.seq})
		return dp(s)
	})
	c.SetPongHandler(func(s string) error {
		rd.seq++
		rd.Handlers = append(rd.Handlers, HandlerEv{Kind: 10, Payload: s, Seq: rd.seq})
		return dq(s)
	})
	c.SetCloseHandler(func(code int, s string) error {
		rd.seq++
		rd.Handlers = append(rd.Handlers, HandlerEv{Kind: 8, Payload: s, Code: code, Seq: rd.seq})
		return dc(code, s)
	})
}

// ReadOne reads the next message with the given mode. sizes drives RNext.
// It returns false when NextReader/ReadMessage failed (terminal).
func (rd *Reader) ReadOne(mode int, r *gen.R) bool {
	c := rd.C
	switch mode {
	case RMsg:
		t, p, err := c.ReadMessage()
		if err != nil && p == nil && t <= 0 {
			rd.Err = err
			return false
		}
		g := Got{Type: t, Data: p}
		if err != nil {
			g.ReadErr = err
		}
		rd.Got = append(rd.Got, g)
		return true
	default:
		t, nr, err := c.NextReader()
		if err != nil {
			rd.Err = err
			return false
		}
		var buf []byte
		style := r.Intn(5)
		var rerr error
		tmp := make([]byte, 70000)
		for {
			var n int
			switch style {
			case 0:
				n = 1
			case 1:
				n = r.Range(1, 9)
			case 2:
				n = r.Range(1, 600)
			case 3:
				n = 65536
			default:
				n = r.Range(1, 70000-8)
			}
			al := r.Intn(8)
			k, e := nr.Read(tmp[al : al+n])
			buf = append(buf, tmp[al:al+k]...)
			if e != nil {
				if e != io.EOF {
					rerr = e
				}
				break
			}
		}
		rd.Got = append(rd.Got, Got{Type: t, Data: buf, ReadErr: rerr})
		return true
	}
}

// ReadAll reads until the terminal error, choosing a mode per message.
func (rd *Reader) ReadAll(r *gen.R, fixedMode int) {
	for i := 0; i < 100000; i++ {
		mode := fixedMode
		if mode < 0 {
			mode = r.Intn(2)
		}
		if !rd.ReadOne(mode, r) {
			return
		}
	}
	rd.Err = errors.New("harness: reader did not terminate after 100000 messages")
}

// ---------------------------------------------------------------- helpers

func errStr(err error) string {
	if err == nil {
		return "<nil>"
	}
	return err.Error()
}

func errStrs(errs []error) []string {
	var out []string
	for _, e := range errs {
		out = append(out, errStr(e))
	}
	return out
}

func progDesc(prog []WStep) []string {
	var out []string
	for _, s := range prog {
		out = append(out, s.Desc())
	}
	return out
}

func framesDesc(fs []wire.Frame, max int) string {
	var sb strings.Builder
	for i, f := range fs {
		if i >= max {
			fmt.Fprintf(&sb, " ...(%d frames)", len(fs))
			break
		}
		sb.WriteString(f.String())
	}
	return sb.String()
}

func diffAt(a, b []byte) int {
	n := len(a)
	if len(b) < n {
		n = len(b)
	}
	for i := 0; i < n; i++ {
		if a[i] != b[i] {
			return i
		}
	}
	if len(a) != len(b) {
		return n
	}
	return -1
}

func isCloseErr(err error, code int, text string) bool {
	var ce *ws.CloseError
	if errors.As(err, &ce) {
		return ce.Code == code && ce.Text == text
	}
	return false
}
