package props

import (
	"bytes"
	"fmt"
	"io"
	"time"

	ws "github.com/gorilla/websocket"

	"verif/internal/core"
	"verif/internal/wire"
	"verif/internal/xport"
)

// Receiver model (RFC 6455 5.2-5.5, 7.4; RFC 7692 6) for the next frame.
const (
	rmLegal = iota
	rmViolation
	rmUnspecified
)

type nextFrame struct {
	Op      int  `json:"op"`
	Fin     bool `json:"fin"`
	Rsv     int  `json:"rsv"` // bit2=RSV1 bit1=RSV2 bit0=RSV3
	Masked  bool `json:"masked"`
	LenCls  int  `json:"len_class"`
	Body    int  `json:"close_body,omitempty"` // index into closeBodies, -1 = not a close-body case
	payload []byte
}

const (
	lc0 = iota
	lc1
	lc125
	lc126
	lc65535
	lc65536
	lcMaxInt63
	lcTopBit
	lcNonMinimal
	lcAllOnes // 2^64-1 .. 2^64-3: top bit set, and -1..-3 when read as a signed number
	nLenClasses
)

var lenClassNames = []string{"0", "1", "125", "126", "65535", "65536", "2^63-1", "top-bit", "non-minimal(5 as 16/64-bit)", "all-ones (2^64-1..2^64-3)"}

type closeBody struct {
	name  string
	body  []byte
	class int
	code  int
	text  string
}

var closeBodies []closeBody

func init() {
	add := func(name string, body []byte, class int) {
		cb := closeBody{name: name, body: body, class: class}
		if class == rmLegal {
			cb.code, cb.text, _ = wire.CloseBody(body)
		}
		closeBodies = append(closeBodies, cb)
	}
	add("empty", nil, rmLegal)
	add("one-byte", []byte{3}, rmUnspecified)
	for _, c := range []int{1000, 1001, 1002, 1003, 1007, 1008, 1009, 1010, 1011, 3000, 3500, 4000, 4999} {
		add(fmt.Sprintf("valid-%d", c), wire.MkClose(c, ""), rmLegal)
	}
	add("valid-1000-reason", wire.MkClose(1000, "bye → 世界"), rmLegal)
	add("valid-4000-123", wire.MkClose(4000, string(bytes.Repeat([]byte("r"), 123))), rmLegal)
	for _, c := range []int{1012, 1013, 1014} {
		add(fmt.Sprintf("unspecified-%d", c), wire.MkClose(c, ""), rmUnspecified)
	}
	for _, c := range []int{0, 1, 999, 1004, 1005, 1006, 1015, 1016, 1100, 2000, 2999, 5000, 9999, 65535} {
		add(fmt.Sprintf("invalid-%d", c), wire.MkClose(c, ""), rmViolation)
		add(fmt.Sprintf("invalid-%d-reason", c), wire.MkClose(c, "why"), rmViolation)
	}
	add("bad-utf8-ff", append(wire.MkClose(1000, ""), 0xff), rmViolation)
	add("bad-utf8-truncated", append(wire.MkClose(1000, "ab"), 0xe4, 0xb8), rmViolation)
	add("bad-utf8-overlong", append(wire.MkClose(3000, ""), 0xc0, 0xaf), rmViolation)
	add("bad-utf8-surrogate", append(wire.MkClose(1001, "x"), 0xed, 0xa0, 0x80), rmViolation)
	add("bad-utf8-long", append(wire.MkClose(1000, string(bytes.Repeat([]byte("a"), 122))), 0x80), rmViolation)
	// the longest possible body (125 bytes) ending inside a multi-byte character
	add("bad-utf8-125-truncated-2-of-3", append(wire.MkClose(1000, string(bytes.Repeat([]byte("a"), 121))), 0xe4, 0xb8), rmViolation)
	add("bad-utf8-125-truncated-1-of-2", append(wire.MkClose(3999, string(bytes.Repeat([]byte("b"), 122))), 0xc3), rmViolation)
	add("bad-utf8-125-truncated-3-of-4", append(wire.MkClose(1001, string(bytes.Repeat([]byte("c"), 120))), 0xf0, 0x9f, 0x98), rmViolation)
	add("valid-1000-replacement-char", wire.MkClose(1000, "a\ufffdb"), rmLegal)
	add("valid-4999-123-multibyte", wire.MkClose(4999, string(bytes.Repeat([]byte("界"), 41))), rmLegal)
}

const nHistories = 6

var historyNames = []string{"idle", "after-complete-message", "after-ping", "in-message-1-frame", "in-message-2-frames", "in-message-ping-interleaved"}

func inMessage(h int) bool { return h >= 3 }

// classify is the receiver model. kind names the violation(s).
func classify(h int, readerIsServer, comp bool, f nextFrame) (class int, kind string, topBit bool) {
	var kinds []string
	unspec := false
	rsv1, rsv2, rsv3 := f.Rsv&4 != 0, f.Rsv&2 != 0, f.Rsv&1 != 0
	if rsv2 {
		kinds = append(kinds, "rsv2")
	}
	if rsv3 {
		kinds = append(kinds, "rsv3")
	}
	control := f.Op >= 8 && f.Op <= 10
	data := f.Op == 1 || f.Op == 2
	if rsv1 {
		switch {
		case !comp:
			kinds = append(kinds, "rsv1-not-negotiated")
		case data && !inMessage(h):
			// legal iff the payload is a valid DEFLATE message; only the 1-byte
			// payload 0x00 (empty message) is generated as such
			if !(f.LenCls == lc1) {
				unspec = true
			}
		default:
			unspec = true // RSV1 on continuation/control with compression negotiated
		}
	}
	switch {
	case control:
		if !f.Fin {
			kinds = append(kinds, "control-fragmented")
		}
		if f.LenCls >= lc126 {
			// includes lcNonMinimal: a control frame announcing the 16/64-bit length form is
			// refused whatever length follows (RFC 6455 5.5: <=125 and, by 5.2, the 7-bit form)
			kinds = append(kinds, "control-too-long")
		}
	case data:
		if inMessage(h) {
			kinds = append(kinds, "data-inside-message")
		}
	case f.Op == 0:
		if !inMessage(h) {
			kinds = append(kinds, "continuation-without-message")
		}
	default:
		kinds = append(kinds, "reserved-opcode")
	}
	if f.Masked != readerIsServer {
		kinds = append(kinds, "wrong-mask")
	}
	if f.LenCls == lcTopBit || f.LenCls == lcAllOnes {
		topBit = true
		kinds = append(kinds, "length-top-bit")
	}
	if f.Body >= 0 {
		switch closeBodies[f.Body].class {
		case rmViolation:
			kinds = append(kinds, "close-body")
		case rmUnspecified:
			unspec = true
		}
	} else if f.Op == 8 && f.LenCls == lc1 {
		unspec = true
	}
	if f.LenCls == lcNonMinimal || f.LenCls == lcMaxInt63 {
		unspec = true
	}
	if len(kinds) > 0 {
		k := kinds[0]
		for _, x := range kinds[1:] {
			k += "+" + x
		}
		return rmViolation, k, topBit
	}
	if unspec {
		return rmUnspecified, "", false
	}
	return rmLegal, "", false
}

func init() {
	core.Register(&core.Prop{
		ID:    "C04",
		Level: "exploration",
		Rule: "complete enumeration of prefix history (6) x reader role (2) x compression negotiated (2) x next frame header alphabet: 16 opcodes x FIN x RSV1-3 (8) x MASK x 9 length classes, " +
			"plus 57 close bodies in every history/role/compression state; each case is classified LEGAL / VIOLATION / UNSPECIFIED by an independent receiver model and executed on a real Conn; " +
			"distinct = the enumerated cell; non-trivial = classified VIOLATION or LEGAL (UNSPECIFIED cells are executed for no-panic only)",
		Variants:   core.PlainOnly,
		Exhaustive: true,
		Cases: func(tier, variant string) int {
			n := nHistories*2*2*16 + nHistories*2*2
			if tier == "thorough" {
				return n + 400000
			}
			return n + 20000
		},
		Run:          runC04,
		BeatTimeoutS: 60,
		Required:     []string{"violating_frames_rejected", "legal_frames_accepted", "close_1002_seen"},
		Assumptions: []string{
			"exhaustive at the abstraction of the rule (length classes and 6 histories stand for all lengths and all histories)",
			"UNSPECIFIED cells (RSV1 on continuation/control frames or on first frames whose payload is not a DEFLATE stream when compression is negotiated, non-minimal length encodings of data frames, 1-byte close bodies, close codes 1012-1014, 2^63-1 lengths) are executed but no outcome is demanded",
		},
	})
}

func runC04(ctx *core.Ctx, out *core.Out) {
	idx := ctx.Idx
	nMain := nHistories * 2 * 2 * 16
	if idx >= nMain+nHistories*2*2 {
		c04Random(ctx, out)
		return
	}
	if idx < nMain {
		op := idx % 16
		st := idx / 16
		comp := st%2 == 1
		server := (st/2)%2 == 1
		h := st / 4
		for fin := 0; fin < 2; fin++ {
			for rsv := 0; rsv < 8; rsv++ {
				for m := 0; m < 2; m++ {
					for lc := 0; lc < nLenClasses; lc++ {
						f := nextFrame{Op: op, Fin: fin == 1, Rsv: rsv, Masked: m == 1, LenCls: lc, Body: -1}
						c04Case(ctx, out, h, server, comp, f)
					}
				}
			}
		}
		return
	}
	st := idx - nMain
	comp := st%2 == 1
	server := (st/2)%2 == 1
	h := st / 4
	for b := range closeBodies {
		f := nextFrame{Op: 8, Fin: true, Masked: server, LenCls: -1, Body: b}
		c04Case(ctx, out, h, server, comp, f)
	}
}

const markerPing = "MARKER-PING-MUST-NOT-SURFACE"
const markerText = "MARKER-TEXT-MUST-NOT-SURFACE"

func c04Case(ctx *core.Ctx, out *core.Out, h int, server, comp bool, f nextFrame) {
	class, kind, topBit := classify(h, server, comp, f)
	desc := map[string]interface{}{"message_in_progress_is_compressed": comp && class == rmViolation && (f.Op+f.Rsv+f.LenCls)%2 == 0 && h >= 3, "history": historyNames[h], "reader_is_server": server, "compression": comp, "frame": f, "class": []string{"LEGAL", "VIOLATION", "UNSPECIFIED"}[class], "kind": kind}
	if f.LenCls >= 0 {
		desc["length"] = lenClassNames[f.LenCls]
	} else {
		desc["close_body"] = closeBodies[f.Body].name
	}
	sig := fmt.Sprintf("%d|%v|%v|%d|%v|%d|%v|%d|%d", h, server, comp, f.Op, f.Fin, f.Rsv, f.Masked, f.LenCls, f.Body)
	out.Eval(sig, class != rmUnspecified)
	fail := func(s, what string, extra map[string]interface{}) {
		for k, v := range extra {
			desc[k] = v
		}
		out.Violate("C04:"+s, what, desc)
	}

	// ---- build the stream
	peerMasked := server // a conformant peer of a server masks
	mk := func(op int, fin bool, p string) wire.Frame {
		fr := wire.Frame{Op: op, Fin: fin, Masked: peerMasked, Payload: []byte(p)}
		if peerMasked {
			fr.Key = [4]byte{0x11, 0x22, 0x33, 0x44}
		}
		return fr
	}
	// with compression negotiated, the message in progress is itself compressed in half of the
	// cells: its fragments are DEFLATE stored blocks (non-final), so what inflates from them is known
	compressedPartial := comp && class == rmViolation && (f.Op+f.Rsv+f.LenCls)%2 == 0
	frag := func(first bool, fin bool, p string) wire.Frame {
		op := 0
		if first {
			op = 1
		}
		fr := mk(op, fin, p)
		if compressedPartial {
			fr.Payload = append([]byte{0x00, byte(len(p)), 0, ^byte(len(p)), 0xff}, p...)
			fr.Rsv1 = first
		}
		return fr
	}
	var pre []wire.Frame
	var preMsgs []string // complete messages in the history
	var prePings []string
	partial := "" // bytes of the in-progress message before the next frame
	switch h {
	case 1:
		pre = append(pre, mk(1, true, "hist-msg-1"))
		preMsgs = append(preMsgs, "hist-msg-1")
	case 2:
		pre = append(pre, mk(9, true, "hp"))
		prePings = append(prePings, "hp")
	case 3:
		pre = append(pre, frag(true, false, "frag1-"))
		partial = "frag1-"
	case 4:
		pre = append(pre, frag(true, false, "frag1-"), frag(false, false, "frag2-"))
		partial = "frag1-frag2-"
	case 5:
		pre = append(pre, frag(true, false, "frag1-"), mk(9, true, "hp"))
		prePings = append(prePings, "hp")
		partial = "frag1-"
	}
	stream := wire.Encode(pre)
	nf := wire.Frame{Op: f.Op, Fin: f.Fin, Rsv1: f.Rsv&4 != 0, Rsv2: f.Rsv&2 != 0, Rsv3: f.Rsv&1 != 0, Masked: f.Masked, Key: [4]byte{0xa1, 0xb2, 0xc3, 0xd4}}
	n := 0
	switch f.LenCls {
	case lc0:
	case lc1:
		n = 1
	case lc125:
		n = 125
	case lc126:
		n = 126
	case lc65535:
		n = 65535
	case lc65536:
		n = 65536
	case lcMaxInt63:
		n = 32
		nf.HasClaim, nf.ClaimLen, nf.LenForm = true, 1<<63-1, 64
	case lcTopBit:
		n = 32
		nf.HasClaim, nf.ClaimLen, nf.LenForm = true, 1<<63|uint64(1+ctx.Idx%7), 64
	case lcNonMinimal:
		n = 5
		nf.LenForm = 16
		if f.Fin {
			nf.LenForm = 64
		}
	case lcAllOnes:
		n = 32
		nf.HasClaim, nf.ClaimLen, nf.LenForm = true, ^uint64(0)-uint64(ctx.Idx%3), 64
	}
	if f.Body >= 0 {
		nf.Payload = closeBodies[f.Body].body
	} else {
		p := bytes.Repeat([]byte("v"), n)
		if f.Op == 8 && n >= 2 {
			copy(p, wire.MkClose(1000, ""))
		}
		if f.Rsv&4 != 0 && n == 1 {
			p[0] = 0x00 // DEFLATE: empty message
		}
		nf.Payload = p
	}
	f.payload = nf.Payload
	stream = wire.Append(stream, nf)
	// after a legal frame that leaves a message open, finish it so that the
	// marker frames are themselves legal
	legalOpen := class == rmLegal && ((f.Op <= 2 && !f.Fin) || (f.Op >= 8 && inMessage(h)))
	if legalOpen {
		stream = wire.Append(stream, mk(0, true, ""))
	}
	stream = wire.Append(stream, mk(9, true, markerPing))
	stream = wire.Append(stream, mk(1, true, markerText))

	// ---- execute
	nc := xport.New([]xport.Chunk{{Data: stream}})
	var c *ws.Conn
	head := 0
	if server && !comp && f.Rsv&4 != 0 {
		// RSV1 towards a server that declined compression: build the connection through the
		// real Upgrade, the client having OFFERED permessage-deflate and the server not enabling it
		req := validRequest(someKey)
		req.Header["Sec-Websocket-Extensions"] = []string{"permessage-deflate; client_max_window_bits"}
		var err error
		c, err = (&ws.Upgrader{ReadBufferSize: 4096, WriteBufferSize: 4096}).Upgrade(newFakeRW(nc, nil, 4096), req, nil)
		if err != nil {
			out.Inconcl("set-up handshake failed: " + err.Error())
			return
		}
		head = nc.WrittenLen()
		desc["connection_built_by"] = "Upgrader.Upgrade (offer declined)"
		out.Count("cells_on_upgrade_built_connections", 1)
	} else {
		c = ws.VerifNewConn(nc, server, 4096, 4096, nil, nil, comp)
	}
	// history: in every other cell the application set a write deadline for an earlier
	// write and that deadline has meanwhile passed (the usual per-write idiom); the
	// library's own replies must not inherit it
	if (f.Rsv+f.LenCls+f.Op)%2 == 1 {
		c.SetWriteDeadline(time.Now().Add(-time.Second))
		desc["stale_expired_write_deadline"] = true
	}
	rd := &Reader{C: c}
	rd.InstallRecordingHandlers()
	type delivered struct {
		typ  int
		data []byte
		err  error
	}
	var got []delivered
	var termErr error
	var openReader io.Reader
	var reRead bool
	var reN int
	var reErr error
	for i := 0; i < 8; i++ {
		t, r, err := c.NextReader()
		if err != nil {
			termErr = err
			break
		}
		b, rerr := io.ReadAll(r)
		got = append(got, delivered{t, b, rerr})
		if rerr != nil {
			openReader = r
			termErr = rerr
			// the application tries the same reader again at once (before any NextReader)
			var b [8]byte
			reN, reErr = r.Read(b[:])
			reRead = true
			break
		}
	}
	written := nc.Written()[head:]
	wframes, wrest, werr := wire.Decode(written)

	switch class {
	case rmUnspecified:
		out.Count("unspecified_cells_executed", 1)
		return
	case rmViolation:
		out.Count("violating_frames_rejected", 1)
		if termErr == nil {
			fail("violation-accepted:"+kind, "reader reported no error for a stream with a framing violation ("+kind+")", nil)
			return
		}
		// earlier complete messages intact
		gi := 0
		for _, m := range preMsgs {
			if gi >= len(got) || got[gi].err != nil || string(got[gi].data) != m {
				fail("earlier-message-lost:"+kind, fmt.Sprintf("message %q completed before the violation was not delivered intact", m), nil)
				return
			}
			gi++
		}
		// what else was delivered must be a prefix of the in-progress message, with an error
		for ; gi < len(got); gi++ {
			g := got[gi]
			if g.err == nil {
				fail("delivered-after-violation:"+kind, fmt.Sprintf("a message (%d bytes) was reported complete at or after the violating frame", len(g.data)), map[string]interface{}{"delivered": core.Trunc(g.data, 64)})
				return
			}
			if !bytes.HasPrefix([]byte(partial), g.data) {
				fail("violating-payload-delivered:"+kind, "bytes of the violating frame (or later) reached the application", map[string]interface{}{"delivered": core.Trunc(g.data, 64)})
				return
			}
		}
		var pings []string
		for _, hv := range rd.Handlers {
			if hv.Kind == 9 {
				pings = append(pings, hv.Payload)
			} else {
				fail("handler-called-for-violating-frame:"+kind, fmt.Sprintf("handler for opcode %d invoked with %q", hv.Kind, hv.Payload), nil)
				return
			}
		}
		if core.J(pings) != core.J(prePings) {
			fail("handler-log:"+kind, fmt.Sprintf("ping handler saw %q, expected exactly the history's %q", pings, prePings), nil)
			return
		}
		// sticky
		for i := 0; i < 3; i++ {
			_, _, e2 := c.NextReader()
			if e2 != termErr {
				if !(openReader != nil && i >= 0 && e2 != nil && e2.Error() == termErr.Error()) {
					fail("error-not-sticky:"+kind, fmt.Sprintf("NextReader after the failure returned %v, first error was %v", e2, termErr), nil)
					return
				}
			}
		}
		if reRead && (reN != 0 || reErr != termErr) {
			fail("open-reader-after-failure:"+kind, fmt.Sprintf("the next Read on the message reader that had just failed with %v returned (%d,%v); every later read must fail with the same error", termErr, reN, reErr), nil)
			return
		}
		if openReader != nil {
			var b [8]byte
			if n, e := openReader.Read(b[:]); n != 0 || e == nil {
				fail("open-reader-after-failure:"+kind, fmt.Sprintf("Read on the failed message reader returned (%d,%v)", n, e), nil)
				return
			}
		}
		// the 1002 close
		if werr != nil || len(wrest) != 0 {
			fail("write-log-undecodable:"+kind, "bytes written back do not decode", nil)
			return
		}
		closes := 0
		for _, wf := range wframes {
			if wf.Masked == server {
				fail("reply-frame-wrong-masking:"+kind, fmt.Sprintf("the reader (server=%v) wrote a frame with MASK=%v: a conformant peer rejects it and never learns the status", server, wf.Masked), nil)
				return
			}
			if wf.Op == 8 {
				closes++
				code, _, ok := wire.CloseBody(wf.Payload)
				if !ok || code != 1002 {
					if !topBit {
						fail("close-status:"+kind, fmt.Sprintf("close frame sent with status %d, expected 1002", code), nil)
						return
					}
				}
			}
		}
		if !topBit {
			if closes != 1 {
				fail("close-1002-missing:"+kind, fmt.Sprintf("%d close frames written back, expected exactly one with status 1002", closes), map[string]interface{}{"written": framesDesc(wframes, 8)})
				return
			}
			out.Count("close_1002_seen", 1)
		}
	case rmLegal:
		out.Count("legal_frames_accepted", 1)
		// expected deliveries
		var exp []string
		exp = append(exp, preMsgs...)
		closeCase := f.Op == 8
		switch {
		case f.Op == 1 || f.Op == 2:
			p := string(f.payload)
			if f.Rsv&4 != 0 {
				p = ""
			}
			exp = append(exp, p)
		case f.Op == 0:
			exp = append(exp, partial+string(f.payload))
		case f.Op >= 9 && inMessage(h):
			exp = append(exp, partial)
		}
		if !closeCase {
			exp = append(exp, markerText)
		}
		if closeCase && len(got) > 0 && got[len(got)-1].err != nil && bytes.HasPrefix([]byte(partial), got[len(got)-1].data) {
			got = got[:len(got)-1] // the message the close interrupted
		}
		if len(got) != len(exp) {
			fail("legal-frame-mishandled", fmt.Sprintf("delivered %d messages, expected %d; terminal error %v", len(got), len(exp), termErr), nil)
			return
		}
		for i := range exp {
			if got[i].err != nil || string(got[i].data) != exp[i] {
				fail("legal-frame-mishandled", fmt.Sprintf("message %d: delivered %d bytes (err %v), expected %d bytes", i, len(got[i].data), got[i].err, len(exp[i])), nil)
				return
			}
		}
		if closeCase {
			code, text := 1005, ""
			if f.Body >= 0 {
				code, text = closeBodies[f.Body].code, closeBodies[f.Body].text
			} else if len(f.payload) >= 2 {
				code, text, _ = wire.CloseBody(f.payload)
			}
			if !isCloseErr(termErr, code, text) {
				fail("legal-close-mishandled", fmt.Sprintf("reader ended with %v, expected close %d", termErr, code), nil)
				return
			}
			for _, hv := range rd.Handlers {
				if hv.Payload == markerPing {
					fail("frame-after-close-surfaced", "ping after the close frame reached its handler", nil)
					return
				}
			}
		} else if termErr == nil {
			fail("legal-frame-mishandled", "no terminal error at end of stream", nil)
		}
	}
	if ctx.Idx%97 == 0 && f.Fin && f.Rsv == 0 && f.LenCls == lc126 {
		out.Sample(desc)
	}
}

// c04Random: a generated conformant prefix (any number of messages, fragments,
// interleaved controls; possibly ending inside a fragmented message) followed
// by one frame drawn from the header alphabet that the receiver model classifies
// as a VIOLATION, under random read buffer sizes, chunkings and read programs.
func c04Random(ctx *core.Ctx, out *core.Out) {
	r := ctx.R
	server := r.Bool()
	comp := r.Bool()
	st := genStream(r, StreamOpts{FromClient: server, Comp: comp, MaxMsgs: 3, MaxSize: 400, Controls: true})
	frames := st.Frames
	exp := st.DataEvents()
	// optionally cut the prefix inside the last message (=> in-message history)
	inMsg := false
	complete := len(exp)
	if len(exp) > 0 && r.Chance(1, 2) {
		last := exp[len(exp)-1]
		if last.Last > last.First && !last.Comp {
			cut := r.Range(last.First+1, last.Last) // keep frames [0,cut)
			frames = frames[:cut]
			inMsg = true
			complete--
		}
	}
	h := 0
	if inMsg {
		h = 3
	}
	var f nextFrame
	var kind string
	for try := 0; ; try++ {
		f = nextFrame{Op: r.Intn(16), Fin: r.Bool(), Rsv: []int{0, 0, 0, 1, 2, 3, 4, 5, 6, 7}[r.Intn(10)], Masked: r.Chance(3, 4) == server, LenCls: r.Intn(nLenClasses), Body: -1}
		if r.Chance(1, 5) {
			f = nextFrame{Op: 8, Fin: true, Masked: server, LenCls: -1, Body: r.Intn(len(closeBodies))}
		}
		var class int
		class, kind, _ = classify(h, server, comp, f)
		if class == rmViolation && f.LenCls != lcTopBit && f.LenCls != lcAllOnes {
			break
		}
		if try > 200 {
			return
		}
	}
	nf := wire.Frame{Op: f.Op, Fin: f.Fin, Rsv1: f.Rsv&4 != 0, Rsv2: f.Rsv&2 != 0, Rsv3: f.Rsv&1 != 0, Masked: f.Masked, Key: maskKey(r)}
	if f.Body >= 0 {
		nf.Payload = closeBodies[f.Body].body
	} else {
		n := []int{0, 1, 125, 126, 65535, 65536, 32, 32, 5, 32}[f.LenCls]
		nf.Payload = bytes.Repeat([]byte("V"), n)
		switch f.LenCls {
		case lcMaxInt63:
			nf.HasClaim, nf.ClaimLen, nf.LenForm = true, 1<<63-1, 64
		case lcNonMinimal:
			nf.LenForm = 16
		}
	}
	stream := wire.Encode(frames)
	stream = wire.Append(stream, nf)
	mk := func(op int, p string) wire.Frame {
		fr := wire.Frame{Op: op, Fin: true, Masked: server, Payload: []byte(p)}
		if server {
			fr.Key = maskKey(r)
		}
		return fr
	}
	stream = wire.Append(stream, mk(9, markerPing))
	stream = wire.Append(stream, mk(1, markerText))
	ex := rdExec{RB: r.BufSize(), Chunk: r.Intn(xport.NChunkStyles), Mode: r.Intn(3), Server: server, Comp: comp}
	desc := map[string]interface{}{"prefix": framesDesc(frames, 16), "in_message": inMsg, "frame": f, "kind": kind, "exec": ex}
	if ex.Mode == 2 {
		c04Abandon(ctx, out, stream0(frames, nf, server, r), frames, exp, complete, inMsg, ex, kind, desc)
		return
	}
	out.Eval(fmt.Sprintf("rnd|%x|%s", core.Hash(string(stream)), core.J(ex)), true)
	fail := func(sig, what string) {
		desc["bytes"] = core.Trunc(stream, 400)
		out.Violate("C04:"+sig+":"+kind, what, desc)
	}
	nc := xport.New(xport.Rechunk(stream, ex.Chunk, r))
	if idle := ctx.Idx%1500 == 77; idle {
		// the peer is silent for longer than the library's one-second reply allowance before it
		// sends the violating frame: the 1002 close is owed all the same
		pre := len(wire.Encode(frames))
		nc = xport.New(xport.Rechunk(stream[:pre], ex.Chunk, r))
		nc.Block = true
		rest := xport.Rechunk(stream[pre:], ex.Chunk, r)
		go func() {
			time.Sleep(1200 * time.Millisecond)
			nc.Feed(rest...)
		}()
		defer nc.Close()
		desc["peer_idle_before_the_violating_frame"] = "1.2 s"
		out.Count("violations_after_an_idle_period", 1)
	}
	c := ws.VerifNewConn(nc, server, ex.RB, 4096, nil, nil, comp)
	rd := &Reader{C: c}
	rd.InstallRecordingHandlers()
	// history: the application may already have sent its own close frame and go on
	// reading (the closing handshake is not finished until the peer's close arrives)
	localClose := r.Chance(1, 4)
	desc["application_sent_close_first"] = localClose
	if !localClose && r.Chance(1, 3) {
		c.SetWriteDeadline(time.Now().Add(-time.Second))
		desc["stale_expired_write_deadline"] = true
	}
	if localClose {
		if err := c.WriteControl(ws.CloseMessage, ws.FormatCloseMessage(1000, ""), time.Time{}); err != nil {
			out.Inconcl("could not send the local close: " + err.Error())
			return
		}
	}
	var termErr error
	delivered := 0
	for i := 0; i < len(exp)+4; i++ {
		var typ int
		var data []byte
		var err error
		if ex.Mode == 0 {
			typ, data, err = c.ReadMessage()
		} else {
			var rr io.Reader
			typ, rr, err = c.NextReader()
			if err == nil {
				data, err = io.ReadAll(rr)
			}
		}
		if err != nil {
			termErr = err
			if inMsg && len(data) > 0 && !bytes.HasPrefix(exp[complete].Data, data) {
				fail("violating-payload-delivered", "bytes that are not part of the interrupted message reached the application")
				return
			}
			if bytes.Contains(data, []byte("VVVV")) || bytes.Contains(data, []byte(markerText)) {
				fail("violating-payload-delivered", "payload of the violating frame (or of a later frame) reached the application")
				return
			}
			break
		}
		if delivered >= complete {
			fail("delivered-after-violation", fmt.Sprintf("message %d (%d bytes, type %d) was reported complete at or after the violating frame", delivered, len(data), typ))
			return
		}
		if typ != exp[delivered].Kind || !bytes.Equal(data, exp[delivered].Data) {
			fail("earlier-message-lost", fmt.Sprintf("message %d before the violation was altered", delivered))
			return
		}
		delivered++
	}
	out.Count("violating_frames_rejected", 1)
	if termErr == nil {
		fail("violation-accepted", "no error was reported for a stream with a framing violation")
		return
	}
	if delivered != complete {
		fail("earlier-message-lost", fmt.Sprintf("%d messages were complete before the violation, %d were delivered; then %v", complete, delivered, termErr))
		return
	}
	if msg := c04HandlerLog(rd.Handlers, frames); msg != "" {
		fail("handler-called-for-violating-frame", msg)
		return
	}
	for i := 0; i < 3; i++ {
		if _, _, e := c.NextReader(); e == nil || e.Error() != termErr.Error() {
			fail("error-not-sticky", fmt.Sprintf("later NextReader returned %v, first error %v", e, termErr))
			return
		}
	}
	wf, rest, werr := wire.Decode(nc.Written())
	closes := 0
	for _, w := range wf {
		if w.Op == 8 {
			closes++
			code, _, _ := wire.CloseBody(w.Payload)
			if localClose && closes == 1 && code == 1000 {
				continue
			}
			if code != 1002 {
				fail("close-status", fmt.Sprintf("close sent with status %d, expected 1002", code))
				return
			}
		}
	}
	if localClose {
		// the 1002 cannot be sent any more; nothing may follow the application's close (C09)
		out.Count("violations_after_local_close", 1)
		if werr != nil || len(rest) > 0 || closes != 1 {
			fail("frames-after-local-close", fmt.Sprintf("%d close frames on the wire after the application had sent its close", closes))
		}
		return
	}
	if werr != nil || len(rest) > 0 || closes != 1 {
		fail("close-1002-missing", fmt.Sprintf("%d close frames written back, expected exactly one with status 1002", closes))
		return
	}
	out.Count("close_1002_seen", 1)
	out.Count("random_prefix_cases", 1)
}

func stream0(frames []wire.Frame, nf wire.Frame, server bool, r interface{ Fill([]byte) }) []byte {
	b := wire.Encode(frames)
	b = wire.Append(b, nf)
	mk := func(op int, p string) wire.Frame {
		fr := wire.Frame{Op: op, Fin: true, Masked: server, Payload: []byte(p)}
		if server {
			r.Fill(fr.Key[:])
		}
		return fr
	}
	b = wire.Append(b, mk(9, markerPing))
	return wire.Append(b, mk(1, markerText))
}

// c04Abandon: the application abandons messages (reads a prefix or nothing and
// calls NextReader again). The violating frame must still be refused: the number
// of messages NextReader hands out cannot exceed those begun before it.
func c04Abandon(ctx *core.Ctx, out *core.Out, stream []byte, prefixFrames []wire.Frame, exp []Ev, complete int, inMsg bool, ex rdExec, kind string, desc map[string]interface{}) {
	r := ctx.R
	out.Eval(fmt.Sprintf("rnd-abandon|%x|%s", core.Hash(string(stream)), core.J(ex)), true)
	fail := func(sig, what string) {
		desc["bytes"] = core.Trunc(stream, 400)
		out.Violate("C04:"+sig+":"+kind, what, desc)
	}
	nc := xport.New(xport.Rechunk(stream, ex.Chunk, r))
	c := ws.VerifNewConn(nc, ex.Server, ex.RB, 4096, nil, nil, ex.Comp)
	rd := &Reader{C: c}
	rd.InstallRecordingHandlers()
	begun := complete
	if inMsg {
		begun++
	}
	opened := 0
	var termErr error
	for i := 0; i < len(exp)+4; i++ {
		typ, rr, err := c.NextReader()
		if err != nil {
			termErr = err
			break
		}
		if opened >= begun {
			b, _ := io.ReadAll(rr)
			fail("delivered-after-violation", fmt.Sprintf("NextReader handed out message %d (type %d, %d bytes readable) although only %d messages begin before the violating frame", opened, typ, len(b), begun))
			return
		}
		k := r.Range(0, len(exp[opened].Data))
		if r.Chance(1, 3) {
			k = 0
		}
		buf := make([]byte, k)
		n, _ := io.ReadFull(rr, buf)
		if typ != exp[opened].Kind || !bytes.Equal(buf[:n], exp[opened].Data[:n]) {
			fail("earlier-message-lost", fmt.Sprintf("abandoned message %d delivered a non-prefix", opened))
			return
		}
		opened++
	}
	out.Count("violating_frames_rejected", 1)
	out.Count("abandon_cases", 1)
	if termErr == nil {
		fail("violation-accepted", "no error was reported for a stream with a framing violation (application abandons messages)")
		return
	}
	if msg := c04HandlerLog(rd.Handlers, prefixFrames); msg != "" {
		fail("handler-called-for-violating-frame", msg)
		return
	}
	wf, _, _ := wire.Decode(nc.Written())
	closes := 0
	for _, w := range wf {
		if w.Op == 8 {
			closes++
			if code, _, _ := wire.CloseBody(w.Payload); code != 1002 {
				fail("close-status", fmt.Sprintf("close sent with status %d, expected 1002", code))
				return
			}
		}
	}
	if closes != 1 {
		fail("close-1002-missing", fmt.Sprintf("%d close frames written back, expected exactly one with status 1002", closes))
		return
	}
	out.Count("close_1002_seen", 1)
}

// c04HandlerLog compares the handler invocations with the control frames of the
// conformant prefix: exactly those, in order, nothing from the violating frame
// or after it.
func c04HandlerLog(got []HandlerEv, prefix []wire.Frame) string {
	var want []wire.Frame
	for _, f := range prefix {
		if f.Op == 9 || f.Op == 10 {
			want = append(want, f)
		}
	}
	if len(got) > len(want) {
		extra := got[len(want)]
		return fmt.Sprintf("%d control handlers ran but the conformant prefix holds only %d control frames; the extra call is opcode %d with %d payload bytes (from the violating frame or a later one)", len(got), len(want), extra.Kind, len(extra.Payload))
	}
	for i, g := range got {
		if g.Kind != want[i].Op || g.Payload != string(want[i].Payload) {
			return fmt.Sprintf("handler call %d is opcode %d with %d bytes, the prefix's control frame %d is opcode %d with %d bytes", i, g.Kind, len(g.Payload), i, want[i].Op, len(want[i].Payload))
		}
	}
	if len(got) < len(want) {
		return fmt.Sprintf("only %d of the %d control frames that precede the violating frame reached their handlers", len(got), len(want))
	}
	return ""
}
