package props

import (
	"fmt"
	"sync"
	"time"

	ws "github.com/gorilla/websocket"

	"verif/internal/core"
	"verif/internal/gen"
	"verif/internal/xport"
)

func init() {
	core.Register(&core.Prop{
		ID:    "C20",
		Level: "exploration",
		Rule: "sequential family: generated write program (incl. invalid requests, abandoned writers) on a pooled connection, clean and with a transport fault at EVERY operation index x 3 kinds; after every API call the instrumented pool's outstanding count is compared with the open-writer state; " +
			"concurrent family: 4-32 connections of mixed roles/compression share one LIFO pool, each running its own program on its own goroutine; every wire log is judged by the independent decoder and the poison of every released buffer is audited; " +
			"distinct = (program hash, fault index, kind) resp. hash of all programs; non-trivial = the pool saw at least two Get/Put pairs",
		Variants: core.PlainOnly,
		Cases: func(tier, variant string) int {
			if tier == "thorough" {
				return 40000
			}
			return 3000
		},
		Run:          runC20,
		BeatTimeoutS: 60,
		Required:     []string{"pool_gets", "pool_puts", "held_checks", "shared_pool_connections", "connections_built_by_upgrade_with_a_pool"},
		Assumptions: []string{
			"the pool value is opened with the verif hook VerifPoolBuf to fingerprint and poison released buffers",
			"schedules of the concurrent family are sampled",
		},
	})
}

// poolOracle checks the per-connection Get/Put event sequence.
func poolOracle(events []PoolEvent, conn int) string {
	var held *PoolEvent
	for i := range events {
		e := events[i]
		if e.Conn != conn {
			continue
		}
		if !e.Put {
			if held != nil {
				return fmt.Sprintf("event %d: Get while a buffer is still outstanding (two buffers held)", i)
			}
			held = &events[i]
			continue
		}
		if held == nil {
			return fmt.Sprintf("event %d: Put of %p with no buffer outstanding (double Put or Put without Get)", i, e.Ptr)
		}
		if held.Ptr != nil && held.Ptr != e.Ptr {
			return fmt.Sprintf("event %d: Put of %p but the buffer taken was %p", i, e.Ptr, held.Ptr)
		}
		held = nil
	}
	return ""
}

func runC20(ctx *core.Ctx, out *core.Out) {
	if ctx.Idx%3 == 2 {
		runC20Shared(ctx, out)
		return
	}
	r := ctx.R
	cfg := genCfg(r)
	cfg.Pool = true
	max := 3000
	if r.Chance(1, 6) {
		max = 70000
	}
	if cfg.WB < 64 {
		max = 600
	} else if max > 40*cfg.WB {
		max = 40 * cfg.WB // keeps the number of transport operations (and so of fault points) affordable
	}
	viaUpgrade := cfg.Server && ctx.Idx%4 == 1
	if viaUpgrade {
		cfg.WB = 4096 // Upgrader.WriteBufferSize 0: the default size
	}
	prog := genProgram(r, cfg, ProgOpts{MaxMsgs: 4, MaxSize: max, Invalid: true, BadJSON: true, FailSource: true})
	desc := rtCase{Cfg: cfg, Prog: progDesc(prog)}
	ph := core.Hash(core.J(desc))
	out.Count("shared_pool_connections", 0)

	one := func(faultAt int, fk xport.FaultKind) (bool, int) {
		nc := xport.New(nil)
		nc.Counted = func(k xport.OpKind) bool { return k == xport.OpWrite || k == xport.OpSetWriteDeadline }
		if faultAt >= 0 {
			nc.FaultAt = map[int]xport.FaultKind{faultAt: fk}
		}
		pool := &TrackPool{}
		var c *ws.Conn
		head := 0
		if viaUpgrade {
			// a server connection as applications get it: Upgrader.Upgrade over a hijacked
			// net/http connection, WriteBufferSize 0, the pool configured on the Upgrader
			u := &ws.Upgrader{WriteBufferPool: pool.Front(7), EnableCompression: cfg.Comp, ReadBufferSize: cfg.RB}
			req := validRequest(someKey)
			if cfg.Comp {
				req.Header["Sec-Websocket-Extensions"] = []string{"permessage-deflate"}
			}
			nc.Counted = func(xport.OpKind) bool { return false } // the handshake is not part of the fault space
			var err error
			c, err = u.Upgrade(newFakeRW(nc, nil, 4096), req, nil)
			if err != nil {
				out.Inconcl("set-up Upgrade failed: " + err.Error())
				return true, 0
			}
			nc.Counted = func(k xport.OpKind) bool { return k == xport.OpWrite || k == xport.OpSetWriteDeadline }
			head = nc.WrittenLen()
			if held, _ := pool.Outstanding(7); held != 0 {
				out.Violate("C20:buffers-held-after-upgrade", fmt.Sprintf("a freshly upgraded connection already accounts for %d pool buffers", held), map[string]interface{}{"case": desc})
				return false, 0
			}
			out.Count("connections_built_by_upgrade_with_a_pool", 1)
		} else {
			c = newConn(nc, cfg, pool, 7)
		}
		w := NewWriter(c, cfg)
		w.NC = nc
		fail := func(sig, what string) bool {
			ev, _ := pool.Snapshot()
			out.Violate("C20:"+sig, what, map[string]interface{}{"case": desc, "fault_at_op": faultAt, "fault": fk.String(), "pool_events": poolEventsDesc(ev)})
			return false
		}
		ok := true
		// after every API call: outstanding == (a message writer is open and healthy)
		openOK := false // a writer is open and has not failed
		check := func(cl Call) bool {
			switch cl.Name {
			case "NextWriter":
				openOK = cl.Err == nil
			case "Write", "WriteString", "ReadFrom", "ReadFrom(failing source)":
				if cl.Err != nil {
					openOK = false
				}
			case "Close", "WriteMessage", "WriteJSON":
				openOK = false
			case "WritePreparedMessage", "WriteControl", "NewPreparedMessage", "SetWriteDeadline":
				// do not touch the message state
			}
			held, _ := pool.Outstanding(7)
			want := 0
			if openOK {
				want = 1
			}
			out.Count("held_checks", 1)
			if held != want {
				state := "no message is open"
				if openOK {
					state = "a message is open"
				}
				return fail(fmt.Sprintf("buffers-held-%d-want-%d", held, want), fmt.Sprintf("after %s at step %d (err=%v) the connection holds %d pool buffers although %s", cl.Name, cl.Step, cl.Err, held, state))
			}
			return true
		}
		w.OnCall = func(cl Call) {
			if ok {
				ok = check(cl)
			}
		}
		w.RunProgram(prog)
		if !ok {
			return false, 0
		}
		if faultAt < 0 {
			// a WriteControl whose deadline has already passed fails before it gets the connection:
			// it must not leave the connection holding anything
			c.WriteControl(ws.PingMessage, []byte("too late"), time.Now().Add(-time.Second))
			if held, _ := pool.Outstanding(7); held != 0 {
				return fail(fmt.Sprintf("buffers-held-%d-want-0", held), "after a WriteControl with an expired deadline the connection holds pool buffers"), 0
			}
		}
		if faultAt < 0 {
			// abandon by closing the connection while a message is open: the buffer goes
			// back when the message ends (the writer's Close fails), exactly once
			if wr, err := c.NextWriter(ws.TextMessage); err == nil {
				wr.Write([]byte("abandoned by Conn.Close"))
				c.Close()
				// (whether Conn.Close itself may already hand the buffer back is not decided
				// by the property; what is: exactly one Put of the buffer taken, none held after)
				wr.Close()
				if held, _ := pool.Outstanding(7); held != 0 {
					return fail(fmt.Sprintf("buffers-held-%d-want-0", held), "after Conn.Close() and the writer's Close the connection's Get/Put balance is not zero"), 0
				}
				out.Count("conn_close_with_open_message", 1)
			}
		}
		// abandon: whatever happened, nothing may be held now (RunProgram closes a trailing writer)
		ev, faults := pool.Snapshot()
		pool.Audit()
		_, faults = pool.Snapshot()
		if len(faults) > 0 {
			return fail("poison-or-identity", faults[0]), 0
		}
		if msg := poolOracle(ev, 7); msg != "" {
			return fail("get-put-sequence", msg), 0
		}
		gets, puts := 0, 0
		for _, e := range ev {
			if e.Put {
				puts++
			} else {
				gets++
			}
		}
		out.Count("pool_gets", int64(gets))
		out.Count("pool_puts", int64(puts))
		if faultAt < 0 {
			cr := &rtRun{prog: prog, w: w, wconn: nc, written: nc.Written()[head:]}
			sub := core.NewOut()
			if !judgeWire(sub, "C20:wire", desc, cfg, prog, cr, nil, false) {
				for _, v := range sub.Viols {
					out.Violate(v.Signature, "pooled connection: "+v.What, v.Detail)
				}
				return false, 0
			}
		}
		out.EvalH(ph^uint64(faultAt+1)<<20^uint64(fk)<<8, gets >= 2)
		return true, nc.CountedOps()
	}
	ok, nops := one(-1, 0)
	if !ok {
		return
	}
	for k := 0; k < nops; k++ {
		for _, fk := range []xport.FaultKind{xport.FaultErr, xport.FaultTimeout, xport.FaultShort} {
			if ok, _ := one(k, fk); !ok {
				return
			}
		}
	}
	if ctx.Idx%199 == 0 {
		out.Sample(map[string]interface{}{"case": desc, "transport_ops": nops})
	}
}

func poolEventsDesc(ev []PoolEvent) []string {
	var s []string
	for i, e := range ev {
		if i > 40 {
			s = append(s, "...")
			break
		}
		k := "Get"
		if e.Put {
			k = "Put"
		}
		s = append(s, fmt.Sprintf("conn%d %s %p len=%d", e.Conn, k, e.Ptr, e.Len))
	}
	return s
}

// runC20Shared: many connections, one pool, one goroutine each.
func runC20Shared(ctx *core.Ctx, out *core.Out) {
	r := ctx.R
	n := r.Range(4, 32)
	wb := r.BufSize()
	if wb < 16 {
		wb = 16
	}
	pool := &TrackPool{}
	type one struct {
		cfg  Cfg
		prog []WStep
		nc   *xport.Conn
		w    *Writer
	}
	conns := make([]*one, n)
	var all []interface{}
	for i := range conns {
		cfg := Cfg{Server: r.Bool(), RB: 256, WB: wb, Pool: true, Comp: r.Chance(1, 3)}
		prog := genProgram(gen.For(ctx.Seed, fmt.Sprintf("c20s/%d", i), ctx.Idx), cfg, ProgOpts{MaxMsgs: 6, MaxSize: 4 * wb, Invalid: true, BadJSON: true, FailSource: true})
		nc := xport.New(nil)
		conns[i] = &one{cfg: cfg, prog: prog, nc: nc}
		conns[i].w = NewWriter(newConn(nc, cfg, pool, i), cfg)
		all = append(all, progDesc(prog))
	}
	var wg sync.WaitGroup
	start := make(chan struct{})
	for _, c := range conns {
		wg.Add(1)
		go func(c *one) {
			defer wg.Done()
			<-start
			c.w.RunProgram(c.prog)
		}(c)
	}
	close(start)
	wg.Wait()
	pool.Audit()
	ev, faults := pool.Snapshot()
	out.Count("shared_pool_connections", int64(n))
	gets, puts, reused := 0, 0, 0
	for _, e := range ev {
		if e.Put {
			puts++
		} else {
			gets++
			if e.Ptr != nil {
				reused++
			}
		}
	}
	out.Count("pool_gets", int64(gets))
	out.Count("pool_puts", int64(puts))
	out.Count("buffers_reused_across_connections", int64(reused))
	out.Count("held_checks", int64(n))
	out.Eval(core.J(all), gets >= 2)
	d := map[string]interface{}{"connections": n, "write_buffer_size": wb}
	if len(faults) > 0 {
		d["pool_events"] = poolEventsDesc(ev)
		out.Violate("C20:poison-or-identity", "shared pool: "+faults[0], d)
		return
	}
	for i, c := range conns {
		if msg := poolOracle(ev, i); msg != "" {
			out.Violate("C20:get-put-sequence", fmt.Sprintf("connection %d: %s", i, msg), d)
			return
		}
		if held, _ := pool.Outstanding(i); held != 0 {
			out.Violate(fmt.Sprintf("C20:buffers-held-%d-want-0", held), fmt.Sprintf("connection %d still holds %d pool buffers after its last message ended", i, held), d)
			return
		}
		cr := &rtRun{prog: c.prog, w: c.w, wconn: c.nc, written: c.nc.Written()}
		sub := core.NewOut()
		if !judgeWire(sub, "C20:shared-wire", map[string]interface{}{"conn": i, "cfg": c.cfg, "prog": progDesc(c.prog)}, c.cfg, c.prog, cr, nil, false) {
			for _, v := range sub.Viols {
				out.Violate(v.Signature, fmt.Sprintf("connection %d of %d sharing a pool: %s", i, n, v.What), v.Detail)
			}
			return
		}
	}
	if ctx.Idx%299 == 2 {
		out.Sample(map[string]interface{}{"shared_pool_connections": n, "write_buffer_size": wb, "gets": gets, "puts": puts, "reused": reused})
	}
}
