package props

import (
	"crypto/ecdsa"
	"crypto/elliptic"
	"crypto/rand"
	"crypto/tls"
	"crypto/x509"
	"crypto/x509/pkix"
	"encoding/pem"
	"fmt"
	"math/big"
	"net"
	"os"
	"path/filepath"
	"sync"
	"time"
)

// pki is an in-process CA generated once per worker process.
type pkiT struct {
	caCert         *x509.Certificate
	caKey          *ecdsa.PrivateKey
	pool           *x509.CertPool
	otherCA        *pkiT
	systemRootFile string
	leafMu         sync.Mutex
	leafs          map[string]tls.Certificate
}

var (
	pkiOnce sync.Once
	thePKI  *pkiT
)

func newCA(cn string) *pkiT {
	key, _ := ecdsa.GenerateKey(elliptic.P256(), rand.Reader)
	tmpl := &x509.Certificate{SerialNumber: big.NewInt(1), Subject: pkix.Name{CommonName: cn}, NotBefore: time.Now().Add(-time.Hour), NotAfter: time.Now().Add(240 * time.Hour),
		IsCA: true, KeyUsage: x509.KeyUsageCertSign | x509.KeyUsageDigitalSignature, BasicConstraintsValid: true}
	der, _ := x509.CreateCertificate(rand.Reader, tmpl, tmpl, &key.PublicKey, key)
	cert, _ := x509.ParseCertificate(der)
	p := &pkiT{caCert: cert, caKey: key, pool: x509.NewCertPool(), leafs: map[string]tls.Certificate{}}
	p.pool.AddCert(cert)
	return p
}

func getPKI() *pkiT {
	pkiOnce.Do(func() {
		thePKI = newCA("verif test CA")
		thePKI.otherCA = newCA("verif UNTRUSTED CA")
		// Make the test CA the process's only system root as well (a Dialer whose
		// TLSClientConfig is nil verifies against the system roots). This only has an
		// effect when it happens before the first certificate verification of the process.
		root := os.Getenv("VERIF_ROOT")
		if root == "" {
			root = "/verif"
		}
		dir := filepath.Join(root, ".build", "ca")
		os.MkdirAll(dir, 0o755)
		f := filepath.Join(dir, fmt.Sprintf("ca-%d.pem", os.Getpid()))
		pemBytes := pem.EncodeToMemory(&pem.Block{Type: "CERTIFICATE", Bytes: thePKI.caCert.Raw})
		if os.WriteFile(f, pemBytes, 0o644) == nil {
			os.Setenv("SSL_CERT_FILE", f)
			os.Setenv("SSL_CERT_DIR", filepath.Join(dir, "empty"))
			thePKI.systemRootFile = f
		}
	})
	return thePKI
}

// leaf returns a certificate for the given host (DNS name or IP literal).
func (p *pkiT) leaf(host string) tls.Certificate {
	p.leafMu.Lock()
	defer p.leafMu.Unlock()
	if c, ok := p.leafs[host]; ok {
		return c
	}
	key, _ := ecdsa.GenerateKey(elliptic.P256(), rand.Reader)
	tmpl := &x509.Certificate{SerialNumber: big.NewInt(int64(len(p.leafs) + 2)), Subject: pkix.Name{CommonName: host}, NotBefore: time.Now().Add(-time.Hour), NotAfter: time.Now().Add(240 * time.Hour),
		KeyUsage: x509.KeyUsageDigitalSignature, ExtKeyUsage: []x509.ExtKeyUsage{x509.ExtKeyUsageServerAuth}}
	if ip := net.ParseIP(host); ip != nil {
		tmpl.IPAddresses = []net.IP{ip}
	} else {
		tmpl.DNSNames = []string{host}
	}
	der, _ := x509.CreateCertificate(rand.Reader, tmpl, p.caCert, &key.PublicKey, p.caKey)
	c := tls.Certificate{Certificate: [][]byte{der}, PrivateKey: key}
	p.leafs[host] = c
	return c
}
