package props

import (
	"crypto/ecdsa"
	"crypto/elliptic"
	"crypto/rand"
	"crypto/tls"
	"crypto/x509"
	"crypto/x509/pkix"
	"math/big"
	"net"
	"sync"
	"time"
)

// pki is an in-process CA generated once per worker process.
type pkiT struct {
	caCert  *x509.Certificate
	caKey   *ecdsa.PrivateKey
	pool    *x509.CertPool
	otherCA *pkiT
	leafMu  sync.Mutex
	leafs   map[string]tls.Certificate
}

var (
	pkiOnce sync.Once
	thePKI  *pkiT
)

func newCA(cn string) *pkiT {
	key, _ := ecdsa.GenerateKey(elliptic.P256(), rand.Reader)
	tmpl := &x509.Certificate{SerialNumber: big.NewInt(1), Subject: pkix.Name{CommonName: cn}, NotBefore: time.Now().Add(-time.Hour), NotAfter: time.Now().Add(240 * time.Hour),
		IsCA: true, KeyUsage: x509.KeyUsageCertSign | x509.KeyUsageDigitalSignature, BasicConstraintsValid: true}
	der, _ := x509.CreateCertificate(rand.Reader, tmpl, tmpl, &key.PublicKey, key)
	cert, _ := x509.ParseCertificate(der)
	p := &pkiT{caCert: cert, caKey: key, pool: x509.NewCertPool(), leafs: map[string]tls.Certificate{}}
	p.pool.AddCert(cert)
	return p
}

func getPKI() *pkiT {
	pkiOnce.Do(func() {
		thePKI = newCA("verif test CA")
		thePKI.otherCA = newCA("verif UNTRUSTED CA")
	})
	return thePKI
}

// leaf returns a certificate for the given host (DNS name or IP literal).
func (p *pkiT) leaf(host string) tls.Certificate {
	p.leafMu.Lock()
	defer p.leafMu.Unlock()
	if c, ok := p.leafs[host]; ok {
		return c
	}
	key, _ := ecdsa.GenerateKey(elliptic.P256(), rand.Reader)
	tmpl := &x509.Certificate{SerialNumber: big.NewInt(int64(len(p.leafs) + 2)), Subject: pkix.Name{CommonName: host}, NotBefore: time.Now().Add(-time.Hour), NotAfter: time.Now().Add(240 * time.Hour),
		KeyUsage: x509.KeyUsageDigitalSignature, ExtKeyUsage: []x509.ExtKeyUsage{x509.ExtKeyUsageServerAuth}}
	if ip := net.ParseIP(host); ip != nil {
		tmpl.IPAddresses = []net.IP{ip}
	} else {
		tmpl.DNSNames = []string{host}
	}
	der, _ := x509.CreateCertificate(rand.Reader, tmpl, p.caCert, &key.PublicKey, p.caKey)
	c := tls.Certificate{Certificate: [][]byte{der}, PrivateKey: key}
	p.leafs[host] = c
	return c
}
