package props

import (
	"crypto/tls"
	"fmt"
	"net"
	"net/http"
	"os"
	"strings"
	"sync"
	"time"

	ws "github.com/gorilla/websocket"

	"verif/internal/core"
)

// Dial paths that take their proxy from the process environment: DefaultDialer, a
// nil *Dialer and a Dialer whose Proxy is http.ProxyFromEnvironment. net/http reads
// HTTP_PROXY/HTTPS_PROXY once per process, so one CONNECT proxy per worker process
// is started and exported before the first such dial; loopback URL hosts are exempt
// from environment proxies, so the URL hosts are names that only the proxy resolves.

type c18EnvCell struct {
	Via  int  `json:"via"` // 1 DefaultDialer, 2 nil *Dialer, 3 Dialer{Proxy: http.ProxyFromEnvironment}
	WSS  bool `json:"wss"`
	Cert int  `json:"cert"` // 0 valid, 1 other host, 2 untrusted CA
	Port bool `json:"explicit_port"`
}

var c18ViaNames = []string{"", "DefaultDialer", "nil *Dialer", "Dialer{Proxy: http.ProxyFromEnvironment}"}

var c18EnvCells []c18EnvCell

func init() {
	for via := 1; via <= 3; via++ {
		for _, wss := range []bool{false, true} {
			for cert := 0; cert < 3; cert++ {
				if !wss && cert > 0 {
					continue
				}
				for _, port := range []bool{true, false} {
					c18EnvCells = append(c18EnvCells, c18EnvCell{Via: via, WSS: wss, Cert: cert, Port: port})
				}
			}
		}
	}
}

var (
	envProxyOnce sync.Once
	envProxy     *httpProxy
	envProxyErr  string
	envBookMu    sync.Mutex
	envBook      = map[string]string{}
)

func getEnvProxy() (*httpProxy, string) {
	envProxyOnce.Do(func() {
		resolve := func(addr string) string {
			envBookMu.Lock()
			defer envBookMu.Unlock()
			if r, ok := envBook[addr]; ok {
				return r
			}
			return "127.0.0.1:1" // unknown names go nowhere
		}
		p, err := newHTTPProxy(nil, resolve, 200)
		if err != nil {
			envProxyErr = "cannot listen: " + err.Error()
			return
		}
		for _, k := range []string{"HTTP_PROXY", "http_proxy", "HTTPS_PROXY", "https_proxy"} {
			os.Setenv(k, "http://"+p.Addr())
		}
		for _, k := range []string{"NO_PROXY", "no_proxy", "REQUEST_METHOD"} {
			os.Unsetenv(k)
		}
		// the setting only counts when nothing in this process asked for the environment proxy before
		for _, u := range []string{"http://envbackend.test/", "https://envbackend.test/"} {
			req, _ := http.NewRequest("GET", u, nil)
			pu, err := http.ProxyFromEnvironment(req)
			if err != nil || pu == nil || pu.Host != p.Addr() {
				envProxyErr = fmt.Sprintf("the process environment proxy is not ours (%v, %v)", pu, err)
				p.Close()
				return
			}
		}
		envProxy = p
	})
	return envProxy, envProxyErr
}

func runC18Env(ctx *core.Ctx, out *core.Out, cell c18EnvCell) {
	pk := getPKI()
	desc := map[string]interface{}{"cell": cell, "dial_path": c18ViaNames[cell.Via], "proxy_kind": "http, from HTTP_PROXY/HTTPS_PROXY"}
	fail := func(sig, what string) { out.Violate("C18:"+sig, what, desc) }
	if pk.systemRootFile == "" {
		out.Inconcl("could not install the test CA as system root")
		return
	}
	hp, perr := getEnvProxy()
	if hp == nil {
		out.Inconcl(perr)
		return
	}
	be, err := newBackend(nil, "127.0.0.1:0")
	if err != nil {
		out.Inconcl("cannot listen: " + err.Error())
		return
	}
	defer be.Close()
	_, bePort, _ := net.SplitHostPort(be.Addr())
	const name = "envbackend.test"
	if cell.WSS {
		var cert tls.Certificate
		switch cell.Cert {
		case 0:
			cert = pk.leaf(name)
		case 1:
			cert = pk.leaf("other.example")
		default:
			cert = pk.otherCA.leaf(name)
		}
		be.mu.Lock()
		be.tls = &tls.Config{Certificates: []tls.Certificate{cert}}
		be.mu.Unlock()
	}
	scheme, defPort := "ws", "80"
	if cell.WSS {
		scheme, defPort = "wss", "443"
	}
	urlHost, target := name, name+":"+defPort
	if cell.Port {
		urlHost = name + ":" + bePort
		target = urlHost
	}
	envBookMu.Lock()
	for k := range envBook {
		delete(envBook, k)
	}
	envBook[target] = be.Addr()
	envBookMu.Unlock()
	hp.mu.Lock()
	req0, tun0, conn0 := len(hp.Reqs), len(hp.Tunnels), hp.Conn
	hp.mu.Unlock()

	u := scheme + "://" + urlHost + "/ws?x=1"
	desc["url"] = u
	out.Eval(core.J(cell), true)
	var d *ws.Dialer
	switch cell.Via {
	case 1:
		d = ws.DefaultDialer
	case 2:
		d = nil
	default:
		d = &ws.Dialer{Proxy: http.ProxyFromEnvironment, HandshakeTimeout: 20 * time.Second}
	}
	conn, _, derr := d.Dial(u, nil)
	out.Count("dials", 1)
	out.Count("dials_with_proxy_from_environment", 1)
	if conn != nil {
		defer conn.Close()
	}
	time.Sleep(5 * time.Millisecond)
	bs := be.snapshot()
	hp.mu.Lock()
	reqs := append([]connectReq(nil), hp.Reqs[req0:]...)
	tun := append([]string(nil), hp.Tunnels[tun0:]...)
	pconn := hp.Conn - conn0
	hp.mu.Unlock()
	if derr != nil {
		desc["dial_error"] = derr.Error()
	}
	desc["backend"] = map[string]interface{}{"connections": bs.Conn, "plain_requests": bs.PlainReqs, "tls_requests": bs.TLSReqs, "hosts": bs.Hosts}
	desc["proxy_log"] = map[string]interface{}{"connections": pconn, "requests": reqs}
	expSuccess := !cell.WSS || cell.Cert == 0
	out.Count("connect_requests_checked", 1)
	if pconn != 1 || len(reqs) != 1 {
		fail("environment-proxy-bypassed", fmt.Sprintf("%s with HTTP_PROXY/HTTPS_PROXY set: the proxy saw %d connections and %d requests, expected exactly one CONNECT (dial error: %v)", c18ViaNames[cell.Via], pconn, len(reqs), derr))
		return
	}
	if reqs[0].Method != "CONNECT" || reqs[0].Target != target {
		fail("connect-target", fmt.Sprintf("proxy received %s %q, expected CONNECT %q", reqs[0].Method, reqs[0].Target, target))
		return
	}
	if len(reqs[0].Auth) != 0 {
		fail("proxy-authorization-unexpected", fmt.Sprintf("Proxy-Authorization %q sent although the proxy URL carries no credentials", reqs[0].Auth))
		return
	}
	if expSuccess && (conn == nil || derr != nil) {
		fail("good-path-fails", fmt.Sprintf("Dial failed on a path that must work: %v", derr))
		return
	}
	if !expSuccess && conn != nil {
		fail("dial-succeeds-with-bad-certificate", "Dial returned a connection although it must fail")
		return
	}
	if !(bs.Conn == 1 && len(tun) == 1 && bs.From[0] == tun[0]) {
		fail("backend-not-through-proxy", fmt.Sprintf("backend connections %v, proxy tunnels %v", bs.From, tun))
		return
	}
	if cell.WSS {
		out.Count("tls_sessions_checked", 1)
		if bs.PlainReqs != 0 {
			fail("handshake-in-clear-text", "the backend of a wss URL received the WebSocket request in clear text")
			return
		}
		if cell.Cert != 0 {
			out.Count("bad_certificates_refused", 1)
			if bs.TLSReqs != 0 {
				fail("request-sent-to-unverified-peer", "the certificate is not valid for the URL host but the backend received the WebSocket request")
				return
			}
		} else if bs.TLSReqs != 1 {
			fail("tls-request-missing", fmt.Sprintf("backend saw %d requests inside TLS", bs.TLSReqs))
			return
		}
	} else if bs.PlainReqs != 1 || bs.FirstByteTLS != 0 {
		fail("ws-request", fmt.Sprintf("plain backend saw %d clear-text requests, %d TLS attempts", bs.PlainReqs, bs.FirstByteTLS))
		return
	}
	if expSuccess && (len(bs.Hosts) != 1 || !strings.EqualFold(bs.Hosts[0], urlHost)) {
		fail("host-header", fmt.Sprintf("backend saw Host %q, URL host is %q", bs.Hosts, urlHost))
		return
	}
	if ctx.Idx%5 == 0 {
		out.Sample(desc)
	}
}
