package props

import (
	"bytes"
	"errors"
	"fmt"
	"runtime"
	"sync"
	"time"

	ws "github.com/gorilla/websocket"

	"verif/internal/core"
	"verif/internal/gen"
	"verif/internal/wire"
	"verif/internal/xport"
)

func init() {
	core.Register(&core.Prop{
		ID:    "C19",
		Level: "exploration",
		Rule: "case = one PreparedMessage (type text/binary/ping/pong/close, size 0/125/126/4095..4097/65536/random) x 2-8 connections drawn from {client,server} x {negotiated or not} x write-compression on/off x level -2..9 x a generated sequence of sends, setting changes and mutations of the caller's slice; " +
			"every third case drives each connection from its own goroutine with a fresh PreparedMessage (first-use rendering contended); each connection's write log is decoded independently and compared with the payload and with WriteMessage on a twin connection; " +
			"distinct = hash of the case descriptor; non-trivial = the message is sent to connections with at least two different (role, compression, level) variants",
		Variants: core.PlainOnly,
		Cases: func(tier, variant string) int {
			if tier == "thorough" {
				return 200000
			}
			return 20000
		},
		Run:      runC19,
		Required: []string{"prepared_sends_decoded", "twin_comparisons", "variants_used", "concurrent_runs_with_writecontrol_pingers", "level_sweeps", "laggards_with_an_expired_write_deadline_sent_first"},
		Assumptions: []string{
			"the twin connection is a second Conn with identical role and settings written with WriteMessage; frame boundaries are not compared, only decoded type, payload and compressed flag",
		},
	})
}

type c19Conn struct {
	cfg     Cfg
	nc      *xport.Conn
	c       *ws.Conn
	enabled bool
	level   int
	exp     []c19Exp
	errs    []error
}

type c19Exp struct {
	comp  bool
	level int
}

type c19Op struct {
	Conn  int  `json:"c"`
	Kind  int  `json:"k"` // 0 send, 1 enable(v), 2 level(v), 3 mutate
	Bool  bool `json:"b,omitempty"`
	Level int  `json:"l,omitempty"`
}

const c19Ping = "ping-from-another-goroutine"

func runC19(ctx *core.Ctx, out *core.Out) {
	r := ctx.R
	typ := []int{1, 2, 1, 2, 9, 10, 8}[r.Intn(7)]
	var size int
	if typ >= 8 {
		size = []int{0, 1, 2, 50, 124, 125}[r.Intn(6)]
	} else {
		size = []int{0, 1, 125, 126, 4095, 4096, 4097, 65535, 65536, r.Range(0, 9000), r.Range(0, 200)}[r.Intn(11)]
	}
	payload := r.Payload(r.Intn(gen.NPayloadClasses), size)
	if typ == 8 && size >= 2 {
		copy(payload, wire.MkClose(1000, ""))
		for i := 2; i < len(payload); i++ {
			payload[i] = 'a' + byte(i%26)
		}
	}
	if typ == 8 && size == 1 {
		payload = payload[:0]
	}
	original := append([]byte(nil), payload...)
	caller := append([]byte(nil), payload...)

	// over-long control messages are refused at creation
	if ctx.Idx%50 == 0 {
		if _, err := ws.NewPreparedMessage(9+ctx.Idx%2, bytes.Repeat([]byte("x"), 126+r.Intn(500))); err == nil {
			out.Violate("C19:oversized-prepared-control-accepted", "NewPreparedMessage accepted a control message with more than 125 payload bytes", nil)
			return
		}
		out.Count("oversized_control_refused", 1)
	}

	nconn := r.Range(2, 8)
	conns := make([]*c19Conn, nconn)
	var cfgs []Cfg
	for i := range conns {
		cfg := Cfg{Server: r.Bool(), RB: 256, WB: r.BufSize(), Pool: r.Chance(1, 4), Comp: r.Bool()}
		nc := xport.New(nil)
		conns[i] = &c19Conn{cfg: cfg, nc: nc, c: newConn(nc, cfg, &TrackPool{}, i), enabled: true, level: 1}
		cfgs = append(cfgs, cfg)
	}
	var ops []c19Op
	nops := r.Range(nconn, 4*nconn)
	for i := 0; i < nops; i++ {
		op := c19Op{Conn: r.Intn(nconn)}
		switch k := r.Intn(10); {
		case k < 6:
			op.Kind = 0
		case k < 7:
			op.Kind, op.Bool = 1, r.Bool()
		case k < 9:
			op.Kind, op.Level = 2, r.Range(-2, 9)
		default:
			op.Kind = 3
		}
		ops = append(ops, op)
	}
	if ctx.Idx%10 == 7 && typ < 8 {
		// a sweep: every connection sends at every compression level (a dozen or more framing
		// variants of the one message), then the first connection sends again
		for ci := range conns {
			for l := -2; l <= 9; l++ {
				ops = append(ops, c19Op{Conn: ci, Kind: 2, Level: l}, c19Op{Conn: ci, Kind: 0})
			}
		}
		ops = append(ops, c19Op{Conn: 0, Kind: 0}, c19Op{Conn: nconn - 1, Kind: 0})
		out.Count("level_sweeps", 1)
	}
	concurrent := ctx.Idx%3 == 2
	desc := map[string]interface{}{"type": typ, "size": size, "conns": cfgs, "ops": ops, "concurrent": concurrent}
	fail := func(sig, what string, extra map[string]interface{}) {
		d := map[string]interface{}{"case": desc}
		for k, v := range extra {
			d[k] = v
		}
		out.Violate("C19:"+sig, what, d)
	}

	// history: on some connections a shared prepared ping (a heartbeat) was sent before
	heartbeat, _ := ws.NewPreparedMessage(ws.PingMessage, []byte("hb"))
	hbSent := map[int]bool{}
	for i, cn := range conns {
		if typ < 8 && r.Chance(1, 3) {
			if e := cn.c.WritePreparedMessage(heartbeat); e == nil {
				hbSent[i] = true
			}
		}
	}
	pm, err := ws.NewPreparedMessage(typ, caller)
	if err != nil {
		fail("valid-prepared-refused", fmt.Sprintf("NewPreparedMessage(type %d, %d bytes) failed: %v", typ, size, err), nil)
		return
	}
	if ctx.Idx%6 == 1 {
		// a laggard goes first: a connection whose write deadline has already passed (its send may
		// fail); every healthy connection of the same kind must still get the whole message
		lag := newConn(xport.New(nil), conns[0].cfg, &TrackPool{}, 98)
		lag.SetWriteDeadline(time.Now().Add(-time.Second))
		lag.WritePreparedMessage(pm)
		out.Count("laggards_with_an_expired_write_deadline_sent_first", 1)
	}
	apply := func(cn *c19Conn, op c19Op) {
		switch op.Kind {
		case 0:
			e := cn.c.WritePreparedMessage(pm)
			cn.errs = append(cn.errs, e)
			cn.exp = append(cn.exp, c19Exp{comp: cn.cfg.Comp && cn.enabled && typ < 8, level: cn.level})
		case 1:
			cn.c.EnableWriteCompression(op.Bool)
			cn.enabled = op.Bool
		case 2:
			if cn.c.SetCompressionLevel(op.Level) == nil {
				cn.level = op.Level
			}
		}
	}
	if !concurrent {
		for _, op := range ops {
			if op.Kind == 3 {
				for j := range caller {
					caller[j] ^= 0xa5
				}
				continue
			}
			apply(conns[op.Conn], op)
		}
	} else {
		// the caller's slice is mutated before anybody sends (rendering of the
		// variants other than the plain server frame happens lazily afterwards)
		for j := range caller {
			caller[j] ^= 0xa5
		}
		var wg sync.WaitGroup
		start := make(chan struct{})
		for ci, cn := range conns {
			// the transport dawdles inside Write, and on every connection another goroutine
			// sends pings through WriteControl while the prepared sends are under way
			cn.nc.DawdleFn = func() { runtime.Gosched(); time.Sleep(20 * time.Microsecond) }
			wg.Add(2)
			go func(cn *c19Conn) {
				defer wg.Done()
				<-start
				for k := 0; k < 4; k++ {
					cn.c.WriteControl(ws.PingMessage, []byte(c19Ping), time.Time{})
					time.Sleep(30 * time.Microsecond)
				}
			}(cn)
			go func(ci int, cn *c19Conn) {
				defer wg.Done()
				<-start
				for _, op := range ops {
					if op.Conn == ci && op.Kind != 3 {
						apply(cn, op)
					}
				}
			}(ci, cn)
		}
		out.Count("concurrent_runs_with_writecontrol_pingers", 1)
		close(start)
		wg.Wait()
	}

	variants := map[string]bool{}
	for ci, cn := range conns {
		frames, rest, derr := wire.Decode(cn.nc.Written())
		if derr != nil || len(rest) > 0 {
			fail("undecodable", fmt.Sprintf("connection %d: write log does not decode (%v, %d trailing bytes)", ci, derr, len(rest)), map[string]interface{}{"conn": ci})
			return
		}
		msgs, open, v := wire.Validate(frames, !cn.cfg.Server, cn.cfg.Comp)
		if v != nil || open != nil {
			what := "unfinished message"
			if v != nil {
				what = v.Error()
			}
			fail("ill-formed", fmt.Sprintf("connection %d (%s): %s", ci, cn.cfg, what), map[string]interface{}{"conn": ci, "frames": framesDesc(frames, 12)})
			return
		}
		if concurrent {
			// the pingers' frames may stand anywhere between whole frames
			kept := msgs[:0]
			for _, m := range msgs {
				if m.Op == 9 && string(m.Data) == c19Ping {
					continue
				}
				kept = append(kept, m)
			}
			msgs = kept
		}
		if hbSent[ci] {
			if len(msgs) == 0 || msgs[0].Op != 9 || string(msgs[0].Data) != "hb" {
				fail("heartbeat-lost", fmt.Sprintf("connection %d: the prepared ping sent first is not the first message on the wire", ci), map[string]interface{}{"conn": ci})
				return
			}
			msgs = msgs[1:]
			out.Count("connections_with_an_earlier_prepared_ping", 1)
		}
		// expected number of messages: all sends up to and including the first close
		want := len(cn.exp)
		if typ == 8 && want > 1 {
			want = 1
		}
		if len(msgs) != want {
			fail("message-count", fmt.Sprintf("connection %d: %d messages on the wire, %d prepared sends expected to appear", ci, len(msgs), want), map[string]interface{}{"conn": ci, "errors": errStrs(cn.errs)})
			return
		}
		for i, e := range cn.errs {
			if typ == 8 && i > 0 {
				if !errors.Is(e, ws.ErrCloseSent) {
					fail("prepared-close-not-final", fmt.Sprintf("connection %d: send %d after a prepared close returned %v instead of ErrCloseSent", ci, i, e), nil)
					return
				}
				continue
			}
			if e != nil {
				fail("prepared-send-failed", fmt.Sprintf("connection %d: WritePreparedMessage #%d returned %v", ci, i, e), nil)
				return
			}
		}
		for i, m := range msgs {
			out.Count("prepared_sends_decoded", 1)
			if m.Op != typ || !bytes.Equal(m.Data, original) {
				sig := "payload-mismatch"
				if bytes.Equal(m.Data, caller) && !bytes.Equal(caller, original) {
					sig = "payload-follows-callers-slice"
				}
				fail(sig, fmt.Sprintf("connection %d send %d: wire decodes to type %d, %d bytes; the message was created as type %d, %d bytes (first difference %d)", ci, i, m.Op, len(m.Data), typ, len(original), diffAt(m.Data, original)), map[string]interface{}{"conn": ci})
				return
			}
			if m.Compressed != cn.exp[i].comp {
				fail("wrong-compression-variant", fmt.Sprintf("connection %d (%s) send %d: compressed=%v on the wire, settings at the time of the call demand %v", ci, cn.cfg, i, m.Compressed, cn.exp[i].comp), map[string]interface{}{"conn": ci})
				return
			}
			variants[fmt.Sprintf("%v|%v|%d", cn.cfg.Server, m.Compressed, cn.exp[i].level)] = true
		}
		if typ == 8 && len(cn.exp) > 0 {
			if e := cn.c.WriteMessage(1, []byte("x")); !errors.Is(e, ws.ErrCloseSent) {
				fail("prepared-close-not-final", fmt.Sprintf("connection %d: WriteMessage after a prepared close returned %v", ci, e), nil)
				return
			}
		}
		// twin: same role and settings, WriteMessage / WriteControl-free path
		if len(cn.exp) > 0 {
			tn := xport.New(nil)
			tc := newConn(tn, cn.cfg, &TrackPool{}, 99)
			tc.EnableWriteCompression(cn.exp[0].comp || !cn.cfg.Comp)
			tc.SetCompressionLevel(cn.exp[0].level)
			if !cn.exp[0].comp && cn.cfg.Comp {
				tc.EnableWriteCompression(false)
			}
			if e := tc.WriteMessage(typ, original); e != nil {
				out.Inconcl(fmt.Sprintf("twin WriteMessage failed: %v", e))
				continue
			}
			tf, _, _ := wire.Decode(tn.Written())
			tm, _, tv := wire.Validate(tf, !cn.cfg.Server, cn.cfg.Comp)
			if tv != nil || len(tm) != 1 {
				out.Inconcl("twin stream not decodable (C02's business)")
				continue
			}
			out.Count("twin_comparisons", 1)
			if tm[0].Op != msgs[0].Op || !bytes.Equal(tm[0].Data, msgs[0].Data) || tm[0].Compressed != msgs[0].Compressed {
				fail("differs-from-writemessage", fmt.Sprintf("connection %d (%s): prepared send decodes to (type %d, %d bytes, compressed=%v), WriteMessage on a twin to (type %d, %d bytes, compressed=%v)", ci, cn.cfg, msgs[0].Op, len(msgs[0].Data), msgs[0].Compressed, tm[0].Op, len(tm[0].Data), tm[0].Compressed), nil)
				return
			}
		}
	}
	out.Count("variants_used", int64(len(variants)))
	out.Eval(core.J(desc), len(variants) >= 2)
	if ctx.Idx%499 == 0 {
		out.Sample(desc)
	}
	_ = time.Now
}
