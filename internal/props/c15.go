package props

import (
	"bufio"
	"bytes"
	"fmt"
	"io"
	"net"
	"net/http"
	"strings"
	"sync"

	ws "github.com/gorilla/websocket"

	"verif/internal/core"
	"verif/internal/gen"
	"verif/internal/httpx"
	"verif/internal/wire"
	"verif/internal/xport"
)

func init() {
	core.Register(&core.Prop{
		ID:    "C15",
		Level: "exploration",
		Rule: "three families: (a) a real Dialer against a real Upgrader over an in-memory duplex transport for all four EnableCompression pairs (complete), then generated sequences of EnableWriteCompression/SetCompressionLevel calls and messages in both directions (WriteMessage, writers closed by the application, writers left open for the next message, settings toggled while a writer is open) with the wire watched for RSV1; " +
			"(b) raw client extension offers (absent, permessage-deflate with any parameters, other extensions first, several lines, quoted values) against the Upgrader; (c) scripted 101 replies with and without each no_context_takeover parameter, other extensions around, against the Dialer; " +
			"'compresses' and 'accepts compressed' are observed behaviourally (RSV1 on the endpoint's wire; a compressed frame fed to its reader); distinct = hash of the case descriptor; non-trivial = compression was offered or announced",
		Variants: core.PlainOnly,
		Cases: func(tier, variant string) int {
			if tier == "thorough" {
				return 150000
			}
			return 36000
		},
		Run:      runC15,
		Required: []string{"pairs_connected", "messages_crossed", "rsv1_frames_seen", "server_offers_checked", "client_replies_checked", "writers_left_open_for_the_next_message", "compression_toggled_with_open_writer", "pairs_with_offer_in_application_header", "messages_of_70_to_300_kb_in_one_frame"},
		Assumptions: []string{
			"a client that did not offer permessage-deflate but is told by a (non-gorilla) server that it is in use is UNSPECIFIED",
			"extension offers with quoting, upper case or malformed syntax are executed; only 'announce => offered and enabled' and 'compresses <=> announced' are demanded",
		},
	})
}

const deflateParams = "permessage-deflate; server_no_context_takeover; client_no_context_takeover"

func announcedBoth(h *httpx.Head) (announced, both bool) {
	for _, v := range h.Get("Sec-WebSocket-Extensions") {
		for _, e := range strings.Split(v, ",") {
			parts := strings.Split(e, ";")
			if strings.TrimSpace(parts[0]) != "permessage-deflate" {
				continue
			}
			announced = true
			s, c := false, false
			for _, p := range parts[1:] {
				switch strings.TrimSpace(strings.SplitN(p, "=", 2)[0]) {
				case "server_no_context_takeover":
					s = true
				case "client_no_context_takeover":
					c = true
				}
			}
			both = s && c
			return
		}
	}
	return
}

// behaviour probes -----------------------------------------------------------

// compressesNow: does the endpoint put RSV1 on the wire for a compressible text message?
func compressesNow(c *ws.Conn, nc *xport.Conn, isClient bool) (bool, error) {
	before := nc.WrittenLen()
	if err := c.WriteMessage(1, bytes.Repeat([]byte("compressible "), 40)); err != nil {
		return false, err
	}
	b := nc.Written()[before:]
	fs, _, err := wire.Decode(b)
	if err != nil || len(fs) == 0 {
		return false, fmt.Errorf("probe frame undecodable: %v", err)
	}
	return fs[0].Rsv1, nil
}

// acceptsCompressed: is a compressed frame fed to its reader decoded?
func acceptsCompressed(c *ws.Conn, nc *xport.Conn, isClient bool) bool {
	return acceptsCompressedShape(c, nc, isClient, 0)
}

// acceptsCompressedShape: shape 0 one frame; 1 an empty first fragment carrying RSV1,
// the data in a continuation; 2 split after the first byte; 3 three fragments, the
// middle one empty (all legal under RFC 6455 / RFC 7692)
func acceptsCompressedShape(c *ws.Conn, nc *xport.Conn, isClient bool, shape int) bool {
	payload := []byte("hello compressed world")
	// DEFLATE stored block, non-final, then the RFC 7692 tail removed
	raw := append([]byte{0x00, byte(len(payload)), 0, ^byte(len(payload)), 0xff}, payload...)
	raw = append(raw, 0x00) // empty stored block header, 00 00 ff ff stripped
	var cuts []int
	switch shape % 4 {
	case 1:
		cuts = []int{0}
	case 2:
		cuts = []int{1}
	case 3:
		cuts = []int{5, 5}
	}
	var b []byte
	prev := 0
	for i := 0; i <= len(cuts); i++ {
		end := len(raw)
		if i < len(cuts) {
			end = cuts[i]
		}
		f := wire.Frame{Fin: i == len(cuts), Rsv1: i == 0, Op: 1, Masked: !isClient, Key: [4]byte{7, 7, 7, byte(i)}, Payload: raw[prev:end]}
		if i > 0 {
			f.Op = 0
		}
		b = wire.Append(b, f)
		prev = end
	}
	nc.Feed(xport.Chunk{Data: b})
	_, p, err := c.ReadMessage()
	return err == nil && bytes.Equal(p, payload)
}

func runC15(ctx *core.Ctx, out *core.Out) {
	switch ctx.Idx % 3 {
	case 0:
		c15Pair(ctx, out)
	case 1:
		c15ServerOffers(ctx, out)
	default:
		c15ClientReplies(ctx, out)
	}
}

// (a) real Dialer <-> real Upgrader; every eighth case runs four pairs at the same
// time (compressor and decompressor pools are shared by all connections of a process)
func c15Pair(ctx *core.Ctx, out *core.Out) {
	if (ctx.Idx/12)%8 != 5 {
		c15PairOn(ctx, out, ctx.R, ctx.Idx)
		return
	}
	const n = 4
	subs := make([]*core.Out, n)
	var wg sync.WaitGroup
	for i := 0; i < n; i++ {
		subs[i] = core.NewOut()
		wg.Add(1)
		go func(i int) {
			defer wg.Done()
			// both sides enable compression in the concurrent groups
			c15PairOn(ctx, subs[i], gen.For(ctx.Seed, fmt.Sprintf("c15/conc%d", i), ctx.Idx), 9+12*i)
		}(i)
	}
	wg.Wait()
	out.Count("concurrent_pair_groups", 1)
	for i, sub := range subs {
		out.Evals += sub.Evals
		out.Hashes = append(out.Hashes, sub.Hashes...)
		for k, v := range sub.Counters {
			out.Count(k, v)
		}
		for _, v := range sub.Viols {
			out.Violate(v.Signature+"-with-concurrent-pairs", fmt.Sprintf("pair %d of %d running concurrently: %s", i, n, v.What), v.Detail)
			return
		}
	}
}

func c15PairOn(ctx *core.Ctx, out *core.Out, r *gen.R, idx int) {
	dc, uc := (idx/3)%2 == 1, (idx/6)%2 == 1
	// the application may put the offer into the request itself (under the RFC's own
	// spelling of the header name) while Dialer.EnableCompression is off
	appOffer := !dc && (idx/12)%3 == 1
	// one pair in sixteen uses megabyte write buffers and messages of 70-300 KB, so that a whole
	// (compressed) message travels as ONE frame of more than 64 KiB
	big := (idx/12)%16 == 3
	a, b := xport.NewPipe()
	desc := map[string]interface{}{"family": "pair", "dialer_enable_compression": dc, "upgrader_enable_compression": uc, "offer_in_application_request_header": appOffer}
	fail := func(sig, what string) {
		out.Violate("C15:"+sig, what, desc)
	}
	type srvRes struct {
		c   *ws.Conn
		err error
	}
	ch := make(chan srvRes, 1)
	go func() {
		br := bufio.NewReader(b)
		req, err := http.ReadRequest(br)
		if err != nil {
			ch <- srvRes{nil, err}
			return
		}
		u := &ws.Upgrader{EnableCompression: uc, ReadBufferSize: []int{0, 512}[idx%2], CheckOrigin: func(*http.Request) bool { return true }}
		if big {
			u.WriteBufferSize = 1 << 20
		}
		c, err := u.Upgrade(newFakeRW(b, br, 4096), req, nil)
		ch <- srvRes{c, err}
	}()
	d := ws.Dialer{EnableCompression: dc}
	if big {
		d.WriteBufferSize = 1 << 20
	}
	d.NetDial = nil
	cc, _, err, _ := func() (*ws.Conn, *http.Response, error, *xport.Conn) {
		dd := d
		dd.NetDialContext = nil
		dd.NetDial = nil
		if appOffer {
			return dialOverH(&dd, a, http.Header{"Sec-WebSocket-Extensions": {deflateParams}})
		}
		return dialOver(&dd, a)
	}()
	sr := <-ch
	out.Eval(core.J(desc)+fmt.Sprint(idx/12), dc || uc)
	if appOffer && err != nil && cc == nil {
		// a Dialer may refuse an application-supplied extension header outright
		out.Count("application_offer_refused_by_dialer", 1)
		if sr.c != nil {
			sr.c.Close()
		}
		return
	}
	if err != nil || sr.err != nil || cc == nil || sr.c == nil {
		fail("pair-handshake-failed", fmt.Sprintf("Dialer/Upgrader handshake failed: client %v, server %v", err, sr.err))
		return
	}
	out.Count("pairs_connected", 1)
	sc := sr.c
	// what did the 101 say?
	h, perr := httpx.ParseResponse(b.Written())
	if perr != nil {
		fail("101-malformed", perr.Error())
		return
	}
	announced, both := announcedBoth(h)
	agreed := announced && both
	desc["announced"], desc["both_parameters"] = announced, both
	if appOffer {
		out.Count("pairs_with_offer_in_application_header", 1)
	}
	if announced && !((dc || appOffer) && uc) {
		fail("announced-without-agreement", fmt.Sprintf("permessage-deflate announced although Dialer=%v (application-supplied offer=%v) Upgrader=%v", dc, appOffer, uc))
		return
	}
	reqEnd := bytes.Index(a.Written(), []byte("\r\n\r\n")) + 4
	respEnd := h.Len
	// messages both ways with toggles
	type dirT struct {
		name    string
		w, rd   *ws.Conn
		wnc     *xport.Conn
		off     int
		client  bool
		enabled bool
	}
	dirs := []*dirT{{"client->server", cc, sc, a, reqEnd, true, true}, {"server->client", sc, cc, b, respEnd, false, true}}
	for _, dir := range dirs {
		n := r.Range(2, 8)
		var sent [][]byte
		var expRSV []bool
		for i := 0; i < n; i++ {
			switch r.Intn(4) {
			case 0:
				dir.enabled = r.Bool()
				dir.w.EnableWriteCompression(dir.enabled)
			case 1:
				lv := r.Range(-2, 9)
				if err := dir.w.SetCompressionLevel(lv); err != nil {
					fail("level-refused", fmt.Sprintf("SetCompressionLevel(%d): %v", lv, err))
					return
				}
			}
			p := r.Payload(r.Intn(gen.NPayloadClasses), r.BoundarySize(4096, 20000))
			if big && i < 2 {
				p = r.Payload(r.Intn(gen.NPayloadClasses), r.Range(70000, 300000))
				out.Count("messages_of_70_to_300_kb_in_one_frame", 1)
			}
			// how the application writes it: WriteMessage; a writer it closes; a writer it
			// leaves open (the next message closes it, as documented); a writer during whose
			// life the compression setting is toggled (the open message keeps the setting
			// it was begun with)
			style := r.Intn(6)
			wasEnabled := dir.enabled
			var err error
			switch style {
			case 0, 1, 2:
				err = dir.w.WriteMessage(1+r.Intn(2), p)
			default:
				var w io.WriteCloser
				w, err = dir.w.NextWriter(1 + r.Intn(2))
				if err != nil {
					break
				}
				if style == 5 {
					dir.enabled = r.Bool()
					dir.w.EnableWriteCompression(dir.enabled)
					out.Count("compression_toggled_with_open_writer", 1)
				}
				if style == 3 && i%2 == 1 {
					// streamed with io.Copy from a plain reader that returns its last bytes with io.EOF
					_, err = io.Copy(w, onlyReader{&oddReader{data: p, piece: 1000, eofWith: true}})
				} else {
					for rest := p; len(rest) > 0 && err == nil; {
						k := r.Range(1, len(rest))
						_, err = w.Write(rest[:k])
						rest = rest[k:]
					}
				}
				if err == nil && (style != 4 || i == n-1) {
					err = w.Close()
				} else if err == nil {
					out.Count("writers_left_open_for_the_next_message", 1)
				}
			}
			if err != nil {
				fail("write-failed", fmt.Sprintf("%s: writing message %d (style %d): %v", dir.name, i, style, err))
				return
			}
			sent = append(sent, p)
			expRSV = append(expRSV, agreed && wasEnabled)
		}
		for i, p := range sent {
			_, got, err := dir.rd.ReadMessage()
			if err != nil || !bytes.Equal(got, p) {
				fail("undecodable-by-peer", fmt.Sprintf("%s: message %d (compression agreed=%v) arrived as %d bytes, err %v; sent %d bytes", dir.name, i, agreed, len(got), err, len(p)))
				return
			}
			out.Count("messages_crossed", 1)
		}
		frames, _, derr := wire.Decode(dir.wnc.Written()[dir.off:])
		if derr != nil {
			fail("wire-undecodable", dir.name+": "+derr.Error())
			return
		}
		msgs, _, v := wire.Validate(frames, dir.client, agreed)
		if v != nil {
			sig := "wire-ill-formed"
			if v.Kind == "rsv1-not-negotiated" {
				sig = "rsv1-without-agreement"
			}
			fail(sig, fmt.Sprintf("%s: %v (101 announced=%v both=%v)", dir.name, v, announced, both))
			return
		}
		for i, m := range msgs {
			if m.Compressed {
				out.Count("rsv1_frames_seen", 1)
			}
			if i < len(expRSV) && m.Compressed != expRSV[i] {
				// whether EnableWriteCompression is honoured is C19's business; C15 only
				// demands agreement (RSV1 without agreement is refused by Validate above)
				out.Count("compression_state_differs_from_setting", 1)
			}
		}
	}
	// both endpoints agree on accepting compressed input
	ca, sa := acceptsCompressedShape(cc, a, true, idx/7), acceptsCompressedShape(sc, b, false, idx/11)
	if ca != agreed || sa != agreed {
		fail("endpoints-disagree", fmt.Sprintf("101 agreed=%v but client accepts compressed=%v, server accepts compressed=%v", agreed, ca, sa))
		return
	}
	out.Count("rsv1_frames_seen", 0)
	if idx%600 == 0 {
		out.Sample(desc)
	}
}

// dialOver runs d.Dial over an existing transport.
func dialOver(d *ws.Dialer, nc *xport.Conn) (*ws.Conn, *http.Response, error, *xport.Conn) {
	return dialOverH(d, nc, nil)
}

func dialOverH(d *ws.Dialer, nc *xport.Conn, h http.Header) (*ws.Conn, *http.Response, error, *xport.Conn) {
	dd := *d
	dd.NetDial = func(network, addr string) (net.Conn, error) { return nc, nil }
	c, resp, err := dd.Dial("ws://pair.example/ws", h)
	return c, resp, err, nc
}

// (b) raw offers against the Upgrader
var c15Offers = [][]string{
	nil,
	{"permessage-deflate"},
	{deflateParams},
	{"permessage-deflate; client_max_window_bits"},
	{"permessage-deflate; client_max_window_bits=10; server_max_window_bits=12"},
	{"foo, permessage-deflate"},
	{"foo; bar=1", "permessage-deflate; client_no_context_takeover"},
	{"x-webkit-deflate-frame"},
	{"permessage-deflate; server_max_window_bits=\"10\""},
	{"permessage-deflate, permessage-deflate; client_max_window_bits"},
	{"permessage-deflatex"},
	{"xpermessage-deflate"},
	{"PERMESSAGE-DEFLATE"},
	{"permessage-deflate;\tclient_max_window_bits"},
	{"foo,\tpermessage-deflate"},
	{"\tpermessage-deflate\t"},
	{"permessage-deflate;"},
	{"foo=\"a, permessage-deflate\""},
	{"foo; bar=\"a\\\", permessage-deflate, x=\""},
	{"foo; bar=\"x, permessage-deflate\""},
	{"foo; bar=\"\\\\\", permessage-deflate"},
	{""},
}

func c15ServerOffers(ctx *core.Ctx, out *core.Out) {
	r := ctx.R
	offer := c15Offers[r.Intn(len(c15Offers))]
	enable := r.Bool()
	q := &hsReq{H: map[string][]string{}, Classes: map[string]string{}, classOf: map[string]int{}, Host: "srv.example", Target: "/", Method: "GET"}
	q.set("Connection", []string{"Upgrade"}, cValid)
	q.set("Upgrade", []string{"websocket"}, cValid)
	q.set("Sec-Websocket-Version", []string{"13"}, cValid)
	q.set("Sec-Websocket-Key", []string{someKey}, cValid)
	if offer != nil {
		q.set("Sec-Websocket-Extensions", offer, cValid)
	}
	u := upCfg{SubNil: true, RespNil: true, Compress: enable, RB: []int{0, 300}[r.Intn(2)]}
	o := q.direct(u)
	desc := map[string]interface{}{"family": "server-offers", "offer": offer, "upgrader_enable_compression": enable}
	out.Eval(core.J(desc), offer != nil)
	out.Count("server_offers_checked", 1)
	if o.conn == nil {
		out.Violate("C15:offer-breaks-handshake", fmt.Sprintf("a valid handshake with extension offer %q was refused: %v", offer, o.err), desc)
		return
	}
	h, err := httpx.ParseResponse(o.raw)
	if err != nil {
		out.Violate("C15:101-malformed", err.Error(), desc)
		return
	}
	announced, both := announcedBoth(h)
	offerClass := q.deflateOffer()
	desc["announced"], desc["offer_class"] = announced, className[offerClass]
	if announced && (!enable || offerClass == cInvalid) {
		out.Violate("C15:announced-without-offer-or-enable", fmt.Sprintf("server announced permessage-deflate with enabled=%v and offer %q", enable, offer), desc)
		return
	}
	if announced && !both {
		out.Violate("C15:announced-without-both-parameters", "server announced permessage-deflate without both no_context_takeover parameters", desc)
		return
	}
	comp, werr := compressesNow(o.conn, o.nc, false)
	if werr != nil {
		out.Violate("C15:server-write-failed", werr.Error(), desc)
		return
	}
	if comp != announced {
		out.Violate("C15:server-compresses-without-announcing", fmt.Sprintf("server announced=%v but its frames carry RSV1=%v", announced, comp), desc)
		return
	}
	if acc := acceptsCompressedShape(o.conn, o.nc, false, ctx.Idx/3); acc != announced {
		out.Violate("C15:server-accepts-compressed-mismatch", fmt.Sprintf("server announced=%v but accepts a compressed frame=%v", announced, acc), desc)
		return
	}
	if comp {
		out.Count("rsv1_frames_seen", 1)
	}
}

// (c) scripted replies against the Dialer
func c15ClientReplies(ctx *core.Ctx, out *core.Out) {
	r := ctx.R
	offerByClient := r.Chance(3, 4)
	var ext []string
	kind := r.Intn(15)
	switch kind {
	case 12:
		// optional white space in header lists is SP / HTAB
		ext = []string{"permessage-deflate;\tserver_no_context_takeover;\tclient_no_context_takeover"}
	case 13:
		ext = []string{"foo,\tpermessage-deflate; server_no_context_takeover ;\t client_no_context_takeover"}
	case 14:
		ext = []string{"permessage-deflate\t; client_no_context_takeover\t;\tserver_no_context_takeover\t"}
	case 0:
	case 1, 2, 3:
		ext = []string{deflateParams}
	case 4:
		ext = []string{"permessage-deflate; client_no_context_takeover; server_no_context_takeover"}
	case 5:
		ext = []string{"permessage-deflate; server_no_context_takeover"}
	case 6:
		ext = []string{"permessage-deflate; client_no_context_takeover"}
	case 7:
		ext = []string{"permessage-deflate"}
	case 8:
		ext = []string{"foo; x=1, " + deflateParams}
	case 9:
		ext = []string{"foo", deflateParams + "; server_max_window_bits=15"}
	case 10:
		ext = []string{"foo; server_no_context_takeover; client_no_context_takeover"}
	default:
		ext = []string{"permessage-deflate; server_no_context_takeover; client_max_window_bits=10"}
	}
	extra := ""
	for _, e := range ext {
		extra += "Sec-WebSocket-Extensions: " + e + "\r\n"
	}
	d := &ws.Dialer{EnableCompression: offerByClient}
	c, _, err, nc := scriptedDial(d, "ws://cli.example/x", nil, func(req []byte) []xport.Chunk {
		return []xport.Chunk{{Data: good101(req, extra)}}
	})
	hh, _ := httpx.ParseResponse(good101([]byte("GET / HTTP/1.1\r\nSec-WebSocket-Key: x\r\n\r\n"), extra))
	announced, both := announcedBoth(hh)
	desc := map[string]interface{}{"family": "client-replies", "reply_extensions": ext, "dialer_enable_compression": offerByClient, "announced": announced, "both_parameters": both}
	out.Eval(core.J(desc), announced)
	out.Count("client_replies_checked", 1)
	if announced && !both {
		if c != nil || err == nil {
			out.Violate("C15:client-accepts-context-takeover", "the reply announces permessage-deflate without both no_context_takeover parameters and Dial still returned a connection", desc)
			return
		}
		if !nc.Closed() {
			out.Violate("C15:client-refusal-leaves-transport-open", "Dial refused the compression parameters but did not close the transport", desc)
		}
		return
	}
	if c == nil {
		out.Violate("C15:client-refuses-valid-reply", fmt.Sprintf("Dial failed for a valid reply: %v", err), desc)
		return
	}
	reqEnd := bytes.Index(nc.Written(), []byte("\r\n\r\n")) + 4
	_ = reqEnd
	comp, werr := compressesNow(c, nc, true)
	if werr != nil {
		out.Violate("C15:client-write-failed", werr.Error(), desc)
		return
	}
	acc := acceptsCompressedShape(c, nc, true, ctx.Idx/3)
	if !announced && (comp || acc) {
		out.Violate("C15:client-compresses-without-announcement", fmt.Sprintf("the 101 did not announce permessage-deflate but the client sends RSV1=%v / accepts compressed=%v", comp, acc), desc)
		return
	}
	if announced && both && offerByClient && (!comp || !acc) {
		out.Violate("C15:client-ignores-agreement", fmt.Sprintf("the 101 announced permessage-deflate with both parameters but the client sends RSV1=%v / accepts compressed=%v", comp, acc), desc)
		return
	}
	if comp {
		out.Count("rsv1_frames_seen", 1)
	}
	if ctx.Idx%900 == 2 {
		out.Sample(desc)
	}
}
