package props

import (
	"bytes"
	"encoding/json"
	"fmt"
	"io"
	"reflect"
	"sync"

	ws "github.com/gorilla/websocket"

	"verif/internal/core"
	"verif/internal/gen"
	"verif/internal/wire"
	"verif/internal/xport"
)

func init() {
	core.Register(&core.Prop{
		ID:    "C03",
		Level: "exploration",
		Rule: "case = conformant stream from the independent encoder (own DEFLATE encoder or zlib via python3, admitted only when a foreign inflater reproduces the plaintext) x 3 executions with different (read buffer, chunking, read program); " +
			"distinct = hash of (stream bytes, execution descriptor); non-trivial = stream has a fragmented message, an interleaved control frame or a compressed message; " +
			"sanitizer variants add the full enumeration alignment 0..7 x length 0..40 x mask offset 0..3 of server-side unmasking into application slices",
		Variants: func(tier string) []string { return []string{"plain", "asan", "checkptr"} },
		Cases: func(tier, variant string) int {
			n := 6000
			if tier == "thorough" {
				n = 300000
			}
			if variant != "plain" {
				n = n/25 + 8*41*4/64 + 1
			}
			return n
		},
		Run:          runC03,
		BeatTimeoutS: 60,
		Required:     []string{"messages_delivered", "streams", "streams_ending_with_data_and_eof_in_one_read"},
		Assumptions: []string{
			"streams come from internal/wire + internal/zflate (own encoder) and zlib 1.2.13 through python3; when python3 is absent only the Go inflater vouches for own-encoder streams (evidence counter zlib_streams=0)",
		},
	})
}

type rdExec struct {
	RB     int   `json:"rb"`
	Chunk  int   `json:"chunk"`
	Mode   int   `json:"mode"` // 0 ReadMessage 1 NextReader 2 mixed+JSON 3 Join 4 with abandon
	Aband  []int `json:"abandon,omitempty"`
	Server bool  `json:"reader_is_server"`
	Comp   bool  `json:"comp"`
	// WriteBroken: every transport write fails (the peer stopped reading, a half-closed
	// socket). With the default handlers replies are best effort; what the stream encodes
	// is still delivered.
	WriteBroken bool `json:"every_transport_write_fails,omitempty"`
}

func runC03(ctx *core.Ctx, out *core.Out) {
	r := ctx.R
	if ctx.Variant != "plain" && ctx.Idx < 8*41*4/64+1 {
		maskEnum(ctx, out)
		return
	}
	if ctx.Variant == "plain" && ctx.Idx%10 == 7 {
		c03Many(ctx, out)
		return
	}
	fromClient := r.Bool()
	comp := r.Chance(1, 2)
	max := 70000
	if r.Chance(3, 4) {
		max = 3000
	}
	st := genStream(r, StreamOpts{FromClient: fromClient, Comp: comp, MaxMsgs: 5, MaxSize: max, Controls: true, Close: r.Chance(2, 3), UseZlib: true, JSON: true, LongRuns: true})
	// a JSON message at the end of some streams (before the close)
	out.Count("streams", 1)
	out.Count("encoder_rejected", int64(st.Rejected))
	if st.Deflater == "zlib" {
		out.Count("zlib_streams", 1)
	}
	nontriv := false
	for _, e := range st.Events {
		if e.Kind >= 8 || e.Comp || e.Last > e.First {
			nontriv = true
		}
	}
	exp := st.DataEvents()
	for k := 0; k < 3; k++ {
		ex := rdExec{RB: r.BufSize(), Chunk: r.Intn(xport.NChunkStyles), Mode: r.Intn(5), Server: fromClient, Comp: comp}
		if len(st.Bytes) > 100000 && ex.Chunk != xport.ChunkWhole && ex.Chunk != xport.ChunkHalves {
			ex.Chunk = xport.ChunkRandom
		}
		if ex.Mode == 4 {
			for i := range exp {
				if r.Bool() {
					ex.Aband = append(ex.Aband, i)
				}
			}
		}
		if r.Chance(1, 8) {
			ex.WriteBroken = true
			out.Count("executions_with_a_broken_write_side", 1)
		}
		sig := fmt.Sprintf("%x|%s", core.Hash(string(st.Bytes)), core.J(ex))
		out.Eval(sig, nontriv)
		if !execRead(out, "C03", st, exp, ex, r) {
			return
		}
	}
	if ctx.Idx%499 == 0 {
		out.Sample(map[string]interface{}{"stream": st.Summary(), "deflate": st.Desc, "messages": len(exp)})
	}
}

// execRead feeds st to a fresh Conn and checks the delivered messages.
func execRead(out *core.Out, id string, st *Stream, exp []Ev, ex rdExec, r *gen.R) bool {
	fail := func(sig, what string) bool {
		out.Violate(id+":"+sig, what, map[string]interface{}{"exec": ex, "stream": st.Summary(), "deflate": st.Desc, "bytes": core.Trunc(st.Bytes, 600)})
		return false
	}
	chunks := xport.Rechunk(st.Bytes, ex.Chunk, r)
	if n := len(chunks); n > 0 && len(chunks[n-1].Data) > 0 && len(st.Bytes)%4 == 1 {
		// an io.Reader may return the final bytes together with io.EOF
		chunks[n-1].Err = io.EOF
		out.Count("streams_ending_with_data_and_eof_in_one_read", 1)
	}
	nc := xport.New(chunks)
	if ex.WriteBroken {
		nc.WriteErr = xport.ErrInjected
	}
	c := ws.VerifNewConn(nc, ex.Server, ex.RB, 256, nil, nil, ex.Comp)
	rd := &Reader{C: c}
	rd.InstallRecordingHandlers()
	hasClose := len(st.Events) > 0 && st.Events[len(st.Events)-1].Kind == 8

	checkEnd := func(err error) bool {
		if err == nil {
			return fail("no-terminal-error", "reader did not end with an error after the stream ended")
		}
		if hasClose {
			ce := st.Events[len(st.Events)-1]
			if !isCloseErr(err, ce.Code, ce.Reason) {
				return fail("terminal-error", fmt.Sprintf("reader ended with %v, stream ends with close %d %q", err, ce.Code, ce.Reason))
			}
		}
		return true
	}

	if ex.Mode == 3 {
		term := []string{"\n\x00", "", "", "x"}[r.Intn(4)] // the empty terminator is legal
		jr := ws.JoinMessages(c, term)
		var got bytes.Buffer
		buf := make([]byte, r.Range(1, 3000))
		var jerr error
		for {
			n, e := jr.Read(buf)
			got.Write(buf[:n])
			if e != nil {
				jerr = e
				break
			}
		}
		var want bytes.Buffer
		for _, e := range exp {
			want.Write(e.Data)
			want.WriteString(term)
		}
		out.Count("messages_delivered", int64(len(exp)))
		if !bytes.Equal(got.Bytes(), want.Bytes()) {
			return fail("join-mismatch", fmt.Sprintf("JoinMessages delivered %d bytes, stream encodes %d; first difference at %d", got.Len(), want.Len(), diffAt(got.Bytes(), want.Bytes())))
		}
		return checkEnd(jerr)
	}

	aband := map[int]bool{}
	for _, i := range ex.Aband {
		aband[i] = true
	}
	var stale io.Reader
	for i := 0; ; i++ {
		if i > len(exp)+1 {
			return fail("extra-messages", "reader delivered more messages than the stream encodes")
		}
		if aband[i] && i < len(exp) {
			t, nr, err := c.NextReader()
			if stale != nil {
				var b [16]byte
				if n, _ := stale.Read(b[:]); n != 0 {
					return fail("stale-reader-yields-bytes", fmt.Sprintf("reader of abandoned message %d still returned %d bytes after the next NextReader", i-1, n))
				}
				stale = nil
			}
			if err != nil {
				rd.Err = err
				break
			}
			k := r.Range(0, len(exp[i].Data))
			buf := make([]byte, k)
			n, rerr := io.ReadFull(nr, buf)
			if rerr != nil && k > 0 && n < k {
				return fail("abandon-prefix", fmt.Sprintf("message %d: could read only %d of the first %d bytes: %v", i, n, k, rerr))
			}
			if t != exp[i].Kind || !bytes.Equal(buf[:n], exp[i].Data[:n]) {
				return fail("abandon-prefix", fmt.Sprintf("message %d: abandoned read delivered a non-prefix (type %d vs %d)", i, t, exp[i].Kind))
			}
			rd.Got = append(rd.Got, Got{Type: t, Data: exp[i].Data}) // judged above
			stale = nr
			out.Count("abandoned", 1)
			continue
		}
		mode := ex.Mode
		if mode == 2 || mode == 4 {
			mode = r.Intn(2)
		}
		var ok bool
		if ex.Mode == 2 && i < len(exp) && exp[i].JSON {
			var v, want interface{}
			if err := c.ReadJSON(&v); err != nil {
				return fail("readjson", fmt.Sprintf("ReadJSON of message %d failed: %v", i, err))
			}
			json.NewDecoder(bytes.NewReader(exp[i].Data)).Decode(&want) // the first JSON value of the message
			if !reflect.DeepEqual(v, want) {
				return fail("readjson-mismatch", fmt.Sprintf("ReadJSON of message %d decoded a different value", i))
			}
			rd.Got = append(rd.Got, Got{Type: exp[i].Kind, Data: exp[i].Data})
			out.Count("readjson_messages", 1)
			ok = true
		} else {
			ok = rd.ReadOne(mode, r)
		}
		if stale != nil {
			var b [16]byte
			if n, _ := stale.Read(b[:]); n != 0 {
				return fail("stale-reader-yields-bytes", fmt.Sprintf("reader of abandoned message %d still returned %d bytes after the next NextReader", i-1, n))
			}
			stale = nil
		}
		if !ok {
			break
		}
	}
	out.Count("messages_delivered", int64(len(rd.Got)))
	n := len(rd.Got)
	if len(exp) < n {
		n = len(exp)
	}
	for i := 0; i < n; i++ {
		g, e := rd.Got[i], exp[i]
		if g.ReadErr != nil {
			return fail("read-error", fmt.Sprintf("message %d: read failed with %v after %d of %d bytes", i, g.ReadErr, len(g.Data), len(e.Data)))
		}
		if g.Type != e.Kind || !bytes.Equal(g.Data, e.Data) {
			return fail("payload-mismatch", fmt.Sprintf("message %d: delivered type %d len %d, stream encodes type %d len %d (compressed=%v), first difference at %d", i, g.Type, len(g.Data), e.Kind, len(e.Data), e.Comp, diffAt(g.Data, e.Data)))
		}
	}
	if len(rd.Got) != len(exp) {
		return fail("count-mismatch", fmt.Sprintf("delivered %d messages, stream encodes %d; reader ended with %v", len(rd.Got), len(exp), rd.Err))
	}
	return checkEnd(rd.Err)
}

// maskEnum drives server-side unmasking into application slices for every
// (alignment, length, mask offset) under the sanitizer builds.
func maskEnum(ctx *core.Ctx, out *core.Out) {
	r := ctx.R
	all := 8 * 41 * 4
	per := 64
	lo := ctx.Idx * per
	for k := lo; k < lo+per && k < all; k++ {
		al, ln, mp := k%8, (k/8)%41, k/(8*41)
		// one message: first frame of mp bytes, second of ln bytes => the second
		// frame's unmasking starts at mask offset 0, so instead read mp bytes first
		// from a single frame of mp+ln bytes.
		data := r.Payload(gen.PRandom, mp+ln)
		f := wire.Frame{Fin: true, Op: 2, Masked: true, Key: maskKey(r), Payload: data}
		nc := xport.New([]xport.Chunk{{Data: wire.Append(nil, f)}})
		c := ws.VerifNewConn(nc, true, 4096, 256, nil, nil, false)
		_, nr, err := c.NextReader()
		if err != nil {
			out.Violate("C03:mask-enum", fmt.Sprintf("NextReader failed: %v", err), nil)
			return
		}
		got := make([]byte, 0, mp+ln)
		if mp > 0 {
			b := make([]byte, mp)
			n, _ := io.ReadFull(nr, b)
			got = append(got, b[:n]...)
		}
		// exact-size allocation so that an overrun leaves the object
		backing := make([]byte, al+ln)
		n, _ := io.ReadFull(nr, backing[al:al+ln])
		got = append(got, backing[al:al+n]...)
		out.Eval(fmt.Sprintf("maskenum|%d|%d|%d", al, ln, mp), true)
		out.Count("mask_enum_cells", 1)
		out.Count("messages_delivered", 1)
		out.Count("streams", 1)
		if !bytes.Equal(got, data) {
			out.Violate("C03:mask-enum", fmt.Sprintf("alignment %d length %d mask offset %d: unmasked payload differs at %d", al, ln, mp, diffAt(got, data)), nil)
			return
		}
	}
}

var _ = json.Marshal
var _ = reflect.DeepEqual

// c03Many: several connections read compressed streams at the same time (they
// share the package-level decompressor pool).
func c03Many(ctx *core.Ctx, out *core.Out) {
	r := ctx.R
	n := r.Range(3, 8)
	type one struct {
		st  *Stream
		ex  rdExec
		sub *core.Out
		ok  bool
	}
	rs := make([]*one, n)
	for i := range rs {
		rr := gen.For(ctx.Seed, fmt.Sprintf("c03many/%d", i), ctx.Idx)
		fromClient := rr.Bool()
		st := genStream(rr, StreamOpts{FromClient: fromClient, Comp: true, MaxMsgs: 6, MaxSize: 4000, Controls: true, Close: true, UseZlib: false})
		rs[i] = &one{st: st, ex: rdExec{RB: rr.BufSize(), Chunk: xport.ChunkRandom, Mode: rr.Intn(2), Server: fromClient, Comp: true}, sub: core.NewOut()}
	}
	var wg sync.WaitGroup
	start := make(chan struct{})
	for i, o := range rs {
		wg.Add(1)
		go func(i int, o *one) {
			defer wg.Done()
			<-start
			rr := gen.For(ctx.Seed, fmt.Sprintf("c03many/x%d", i), ctx.Idx)
			for rep := 0; rep < 3 && (rep == 0 || o.ok); rep++ {
				o.ok = execRead(o.sub, "C03", o.st, o.st.DataEvents(), o.ex, rr)
			}
		}(i, o)
	}
	close(start)
	wg.Wait()
	out.Count("concurrent_reader_groups", 1)
	out.Count("streams", int64(n))
	out.Eval(fmt.Sprintf("many|%d|%d", n, ctx.Idx), true)
	for i, o := range rs {
		out.Count("messages_delivered", o.sub.Counters["messages_delivered"])
		for _, v := range o.sub.Viols {
			out.Violate(v.Signature+"-with-concurrent-connections", fmt.Sprintf("connection %d of %d reading concurrently: %s", i, n, v.What), v.Detail)
			return
		}
	}
}
