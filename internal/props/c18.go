package props

import (
	"context"
	"crypto/tls"
	"encoding/base64"
	"fmt"
	"net"
	"net/http"
	"net/url"
	"strings"
	"sync"
	"time"

	ws "github.com/gorilla/websocket"

	"verif/internal/core"
)

type c18Cell struct {
	Proxy  int  `json:"proxy"` // 0 none, 1 http, 2 https, 3 socks5
	WSS    bool `json:"wss"`
	Hooks  int  `json:"hooks"` // 1 NetDial, 2 NetDialContext, 4 NetDialTLSContext
	Creds  int  `json:"creds"` // 0 none, 1 user, 2 user:password
	Cert   int  `json:"cert"`  // 0 valid, 1 other host, 2 untrusted CA, 3 valid for the PROXY's host name (https proxy only)
	Host   int  `json:"host"`
	TLSNil bool `json:"tls_client_config_nil"` // Dialer.TLSClientConfig == nil (system roots), after an earlier wss dial to another host
	Refuse int  `json:"proxy_refuses"`         // 0 no, 1 status 407, 2 status 407 without reason phrase, 3 status 204 (a 2xx that is not 200), 4 status 302, 5 hangs up after reading the CONNECT
	// HostHdr: the caller overrides the Host header (requestHeader["Host"] = other.example); the
	// certificate must still be verified for the URL's host, the CONNECT target stays the URL's
	HostHdr bool `json:"host_header_override,omitempty"`
	// HookTLS: the plain dial hook hands back a *tls.Conn of its own making (InsecureSkipVerify): the
	// library must still establish and verify its own session for the URL's host
	HookTLS bool `json:"plain_hook_returns_tls_conn,omitempty"`
	// AppAuth: the caller's requestHeader carries a Proxy-Authorization of its own: the CONNECT
	// request is governed by the proxy URL alone
	AppAuth bool `json:"application_proxy_authorization_header,omitempty"`
}

const c18OtherHost = "other.example"

var proxyNames = []string{"none", "http", "https", "socks5"}

var c18Cells []c18Cell

// logical hosts need a custom dial hook or a proxy to be reached; real ones do not
var c18Logical = []string{"backend.test", "backend.test:8081", "192.0.2.10", "192.0.2.10:8443", "[2001:db8::5]", "[2001:db8::5]:9443"}

const c18RealForms = 3 // 127.0.0.1:port, localhost:port, [::1]:port

// usesRealProxyHost: the proxy URL carries the loopback address (no dial hook applies).
func usesRealProxyHost(c c18Cell) bool { return c.Proxy != 0 && c.firstHopHook() == "" }

func plainHook(hooks int) string {
	switch {
	case hooks&2 != 0:
		return "NetDialContext"
	case hooks&1 != 0:
		return "NetDial"
	}
	return ""
}

// firstHopHook says which custom dial function must make the first hop.
func (c c18Cell) firstHopHook() string {
	tlsEntity := (c.Proxy == 0 && c.WSS) || c.Proxy == 2
	if tlsEntity && c.Hooks&4 != 0 {
		return "NetDialTLSContext"
	}
	return plainHook(c.Hooks)
}

func init() {
	for proxy := 0; proxy < 4; proxy++ {
		for _, wss := range []bool{false, true} {
			for hooks := 0; hooks < 8; hooks++ {
				for creds := 0; creds < 3; creds++ {
					if proxy == 0 && creds > 0 {
						continue
					}
					for cert := 0; cert < 4; cert++ {
						if !wss && cert > 0 || cert == 3 && proxy != 2 {
							continue
						}
						for refuse := 0; refuse < 6; refuse++ {
							if proxy == 0 && refuse > 0 || proxy == 3 && refuse > 1 {
								continue
							}
							if refuse > 0 && (cert > 0 || creds == 1) {
								continue // keep the matrix affordable: refusals with valid certs only
							}
							c := c18Cell{Proxy: proxy, WSS: wss, Hooks: hooks, Creds: creds, Cert: cert, Refuse: refuse}
							nh := len(c18Logical)
							if proxy == 0 && c.firstHopHook() == "" {
								nh = c18RealForms
							}
							for h := 0; h < nh; h++ {
								c.Host = h
								c18Cells = append(c18Cells, c)
								// the same cell with the caller overriding the Host header (cert 1 is then a
								// certificate for exactly that other name)
								if wss && refuse == 0 && creds == 0 && cert < 2 && h%2 == 0 {
									c3 := c
									c3.HostHdr = true
									c18Cells = append(c18Cells, c3)
								}
								if wss && proxy == 0 && cert == 2 && hooks&3 != 0 && hooks&4 == 0 && h%2 == 0 {
									c4 := c
									c4.HookTLS = true
									c18Cells = append(c18Cells, c4)
								}
								if (proxy == 1 || proxy == 2) && refuse == 0 && cert == 0 && h%3 == 0 {
									c5 := c
									c5.AppAuth = true
									c18Cells = append(c18Cells, c5)
								}
								// the library itself does TLS to the backend: also with a nil TLSClientConfig
								if wss && refuse == 0 && creds == 0 && cert < 2 && (proxy != 0 || hooks&4 == 0) && c.firstHopHook() != "" {
									c2 := c
									c2.TLSNil = true
									c18Cells = append(c18Cells, c2)
								}
							}
						}
					}
				}
			}
		}
	}
}

func init() {
	core.Register(&core.Prop{
		ID:    "C18",
		Level: "exploration",
		Rule: "the configuration matrix {no proxy, http, https, socks5} x {ws, wss} x the 8 subsets of {NetDial, NetDialContext, NetDialTLSContext} x proxy credentials {none, user, user:password} x backend certificate {valid for the host, other host, untrusted CA} x URL host forms (name, name:port, IPv4, [IPv6], with and without explicit port; loopback forms where no custom dial function applies) x proxy refusal {no, 407, 407 without reason phrase, 204, 302}; plus the dial paths that take the proxy from the process environment {DefaultDialer, nil *Dialer, Proxy: http.ProxyFromEnvironment} x {ws, wss} x certificate x {explicit, default port}; " +
			"in-process backends, HTTP(S) CONNECT proxy and SOCKS5 proxy on loopback record what they saw; both tiers enumerate all cells (thorough three times: the loopback ports and connection timing differ between repetitions); distinct = the cell; non-trivial = a proxy or TLS is involved",
		Variants:   core.PlainOnly,
		Exhaustive: false,
		Cases: func(tier, variant string) int {
			if tier == "thorough" {
				return 3*len(c18Cells) + len(c18EnvCells)
			}
			return len(c18Cells) + len(c18EnvCells)
		},
		Run:          runC18,
		Required:     []string{"dials", "connect_requests_checked", "tls_sessions_checked", "hook_logs_checked", "bad_certificates_refused", "dials_with_proxy_from_environment", "dials_with_host_header_override", "second_dials_after_a_refusal", "untrusted_backends_visited_before_by_a_trusting_dialer", "dials_whose_plain_hook_returns_a_tls_conn", "dials_with_an_application_proxy_authorization_header"},
		CaseTimeoutS: 240,
		MaxWorkers:   8,
		Assumptions: []string{
			"real TCP on loopback; logical host names are mapped to the loopback listeners by the recording dial hooks and by the proxies",
			"default ports (80/443) are exercised through the recording hooks and the CONNECT target, never by binding privileged ports",
			"HTTP_PROXY/HTTPS_PROXY are set once per worker process, before the first dial that consults the environment, to a process-wide CONNECT proxy (net/http caches them); the URL hosts of those cells are names only that proxy resolves",
			"both tiers enumerate the matrix completely; an earlier version of the quick tier took every k-th cell and thereby never reached the tail of the cell list (SOCKS5 x wss), found by the regression run over the seeded changes",
		},
	})
}

type hookCall struct{ Name, Network, Addr string }

func runC18(ctx *core.Ctx, out *core.Out) {
	idx := ctx.Idx
	// the tail of the case list: dial paths whose proxy comes from the process environment
	n := len(c18Cells)
	if ctx.Thorough() {
		n *= 3
	}
	if idx >= n {
		runC18Env(ctx, out, c18EnvCells[idx-n])
		return
	}
	cell := c18Cells[idx%len(c18Cells)]
	pk := getPKI()
	desc := map[string]interface{}{"cell": cell, "proxy_kind": proxyNames[cell.Proxy]}
	fail := func(sig, what string) {
		out.Violate("C18:"+sig, what, desc)
	}
	usesReal := cell.Proxy == 0 && cell.firstHopHook() == ""

	// ---- backend
	var beTLS *tls.Config
	listenAddr := "127.0.0.1:0"
	if usesReal && cell.Host == 2 {
		listenAddr = "[::1]:0"
	}
	be, err := newBackend(nil, listenAddr)
	if err != nil {
		out.Inconcl("cannot listen: " + err.Error())
		return
	}
	defer be.Close()
	_, bePort, _ := net.SplitHostPort(be.Addr())
	var urlHost string
	if usesReal {
		urlHost = []string{"127.0.0.1:" + bePort, "localhost:" + bePort, "[::1]:" + bePort}[cell.Host]
	} else {
		urlHost = c18Logical[cell.Host]
	}
	hostNoPort := urlHost
	if i := strings.LastIndex(urlHost, ":"); i > strings.LastIndex(urlHost, "]") {
		hostNoPort = urlHost[:i]
	}
	certName := strings.Trim(hostNoPort, "[]")
	if cell.WSS {
		var cert tls.Certificate
		switch cell.Cert {
		case 0:
			cert = pk.leaf(certName)
		case 1:
			cert = pk.leaf("other.example")
			if cell.TLSNil {
				cert = pk.leaf("warm.test") // the certificate of the host dialed just before
			}
		case 2:
			cert = pk.otherCA.leaf(certName)
		default:
			// the proxy's own certificate presented by the backend: fine for the hop to the
			// proxy, not for the URL's host
			cert = pk.leaf("proxy.test")
			if usesRealProxyHost(cell) {
				cert = pk.leaf("127.0.0.1")
			}
		}
		beTLS = &tls.Config{Certificates: []tls.Certificate{cert}}
		be.mu.Lock()
		be.tls = beTLS
		be.mu.Unlock()
	}
	scheme, defPort := "ws", "80"
	if cell.WSS {
		scheme, defPort = "wss", "443"
	}
	backendHostPort := urlHost
	if hostNoPort == urlHost {
		backendHostPort = urlHost + ":" + defPort
	}
	// ---- address book for hooks and proxies
	var mapMu sync.Mutex
	book := map[string]string{backendHostPort: be.Addr()}
	resolve := func(addr string) string {
		mapMu.Lock()
		defer mapMu.Unlock()
		if r, ok := book[addr]; ok {
			return r
		}
		return addr
	}
	// ---- proxy
	var hp *httpProxy
	var sp *socksProxy
	proxyHostPort := ""
	proxyLogical := "proxy.test:3128"
	status := []int{200, 407, 407, 204, 302, -1}[cell.Refuse]
	switch cell.Proxy {
	case 1, 2:
		var pt *tls.Config
		if cell.Proxy == 2 {
			pt = &tls.Config{}
			cert1, cert2 := pk.leaf("proxy.test"), pk.leaf("127.0.0.1")
			pt.GetCertificate = func(h *tls.ClientHelloInfo) (*tls.Certificate, error) {
				if h.ServerName == "proxy.test" {
					return &cert1, nil
				}
				return &cert2, nil
			}
		}
		hp, err = newHTTPProxy(pt, resolve, status)
		if err != nil {
			out.Inconcl("cannot listen: " + err.Error())
			return
		}
		hp.NoText = cell.Refuse == 2
		defer hp.Close()
		proxyHostPort = hp.Addr()
	case 3:
		sp, err = newSocksProxy(resolve, cell.Creds > 0, cell.Refuse > 0)
		if err != nil {
			out.Inconcl("cannot listen: " + err.Error())
			return
		}
		defer sp.Close()
		proxyHostPort = sp.Addr()
	}
	firstHook := cell.firstHopHook()
	proxyURLHost := proxyHostPort
	if cell.Proxy != 0 && firstHook != "" {
		proxyURLHost = proxyLogical
		book[proxyLogical] = proxyHostPort
	}
	// ---- dialer
	var hookMu sync.Mutex
	var calls []hookCall
	rec := func(name, network, addr string) {
		hookMu.Lock()
		calls = append(calls, hookCall{name, network, addr})
		hookMu.Unlock()
	}
	d := &ws.Dialer{TLSClientConfig: &tls.Config{RootCAs: pk.pool}, HandshakeTimeout: 20 * time.Second}
	if cell.TLSNil {
		if pk.systemRootFile == "" {
			out.Inconcl("could not install the test CA as system root")
			return
		}
		d.TLSClientConfig = nil
		// history: an earlier wss dial of this process, to another host, with a nil TLSClientConfig too
		warm, werr := newBackend(&tls.Config{Certificates: []tls.Certificate{pk.leaf("warm.test")}}, "127.0.0.1:0")
		if werr == nil {
			wd := &ws.Dialer{HandshakeTimeout: 20 * time.Second, NetDialContext: func(ctx context.Context, network, addr string) (net.Conn, error) {
				return (&net.Dialer{}).DialContext(ctx, "tcp", warm.Addr())
			}}
			wc, _, e := wd.Dial("wss://warm.test/first", nil)
			if e != nil {
				warm.Close()
				out.Inconcl("warm-up wss dial with nil TLSClientConfig failed (system root not honoured?): " + e.Error())
				return
			}
			wc.Close()
			warm.Close()
			out.Count("dials_after_an_earlier_wss_dial_with_nil_tls_config", 1)
		}
	}
	ownTLS := func(c net.Conn, err error) (net.Conn, error) {
		if err != nil || !cell.HookTLS {
			return c, err
		}
		tc := tls.Client(c, &tls.Config{InsecureSkipVerify: true})
		if herr := tc.Handshake(); herr != nil {
			c.Close()
			return nil, herr
		}
		return tc, nil
	}
	if cell.Hooks&1 != 0 {
		d.NetDial = func(network, addr string) (net.Conn, error) {
			rec("NetDial", network, addr)
			return ownTLS(net.DialTimeout("tcp", resolve(addr), 5*time.Second))
		}
	}
	if cell.Hooks&2 != 0 {
		d.NetDialContext = func(ctx context.Context, network, addr string) (net.Conn, error) {
			rec("NetDialContext", network, addr)
			return ownTLS((&net.Dialer{}).DialContext(ctx, "tcp", resolve(addr)))
		}
	}
	if cell.Hooks&4 != 0 {
		d.NetDialTLSContext = func(ctx context.Context, network, addr string) (net.Conn, error) {
			rec("NetDialTLSContext", network, addr)
			c, err := (&net.Dialer{}).DialContext(ctx, "tcp", resolve(addr))
			if err != nil {
				return nil, err
			}
			h, _, _ := net.SplitHostPort(addr)
			tc := tls.Client(c, &tls.Config{RootCAs: pk.pool, ServerName: h})
			if err := tc.HandshakeContext(ctx); err != nil {
				c.Close()
				return nil, err
			}
			return tc, nil
		}
	}
	if cell.Proxy != 0 {
		pu := &url.URL{Scheme: proxyNames[cell.Proxy], Host: proxyURLHost}
		switch cell.Creds {
		case 1:
			pu.User = url.User("alice")
		case 2:
			pu.User = url.UserPassword("alice", "s3cr:t p@ss")
		}
		d.Proxy = func(*http.Request) (*url.URL, error) { return pu, nil }
		desc["proxy_url"] = pu.String()
	}
	target := scheme + "://" + urlHost + "/ws?x=1"
	desc["url"] = target
	out.Eval(core.J(cell)+fmt.Sprint(idx/len(c18Cells)), cell.Proxy != 0 || cell.WSS)
	if cell.WSS && cell.Cert == 2 && cell.Proxy == 0 && firstHook != "NetDialTLSContext" && !cell.TLSNil {
		// history: another Dialer of this process, which DOES trust the backend's CA, has just
		// connected to the same server under the same name (same TLS server configuration, so
		// its session tickets would be honoured). The Dialer under test trusts another CA only.
		be0, e0 := newBackend(beTLS, "127.0.0.1:0")
		if e0 == nil {
			wd := &ws.Dialer{TLSClientConfig: &tls.Config{RootCAs: pk.otherCA.pool}, HandshakeTimeout: 20 * time.Second,
				NetDialContext: func(ctx context.Context, network, addr string) (net.Conn, error) {
					return (&net.Dialer{}).DialContext(ctx, "tcp", be0.Addr())
				}}
			for i := 0; i < 2; i++ {
				if wc, _, we := wd.Dial(target, nil); we == nil {
					wc.SetReadDeadline(time.Now().Add(20 * time.Millisecond))
					wc.ReadMessage() // lets the TLS layer take in the server's session tickets
					wc.Close()
					out.Count("untrusted_backends_visited_before_by_a_trusting_dialer", 1)
				}
			}
			be0.Close()
		}
	}
	var reqHdr http.Header
	wantHostHdr := urlHost
	if cell.HostHdr {
		reqHdr = http.Header{"Host": {c18OtherHost}}
		wantHostHdr = c18OtherHost
		out.Count("dials_with_host_header_override", 1)
	}
	if cell.AppAuth {
		if reqHdr == nil {
			reqHdr = http.Header{}
		}
		reqHdr["Proxy-Authorization"] = []string{"Basic YXBwOmFwcA=="}
		out.Count("dials_with_an_application_proxy_authorization_header", 1)
	}
	if cell.HookTLS {
		out.Count("dials_whose_plain_hook_returns_a_tls_conn", 1)
	}
	conn, _, derr := d.Dial(target, reqHdr)
	out.Count("dials", 1)
	if conn != nil {
		defer conn.Close()
	}
	time.Sleep(5 * time.Millisecond) // let the peers finish recording
	if cell.Refuse > 0 && cell.Proxy != 3 && conn != nil {
		time.Sleep(450 * time.Millisecond) // the proxy is still listening for bytes after its refusal
	}
	expSuccess := cell.Refuse == 0 && (!cell.WSS || cell.Cert == 0)
	// give a failing TLS backend a moment to log
	bs := be.snapshot()
	if derr != nil {
		desc["dial_error"] = derr.Error()
	}
	desc["backend"] = map[string]interface{}{"connections": bs.Conn, "plain_requests": bs.PlainReqs, "tls_requests": bs.TLSReqs, "first_byte_tls": bs.FirstByteTLS, "double_tls": bs.DoubleTLS, "hosts": bs.Hosts}
	hookMu.Lock()
	desc["hook_calls"] = append([]hookCall(nil), calls...)
	ncalls := len(calls)
	var call0 hookCall
	if ncalls > 0 {
		call0 = calls[0]
	}
	hookMu.Unlock()

	// ---- result
	if expSuccess && (conn == nil || derr != nil) {
		fail("good-path-fails", fmt.Sprintf("Dial failed on a path that must work: %v", derr))
		return
	}
	if !expSuccess && conn != nil {
		sig := "dial-succeeds-despite-proxy-refusal"
		if cell.Refuse == 0 {
			sig = "dial-succeeds-with-bad-certificate"
		}
		fail(sig, "Dial returned a connection although it must fail")
		return
	}
	// ---- first hop
	out.Count("hook_logs_checked", 1)
	wantAddr := backendHostPort
	if cell.Proxy != 0 {
		wantAddr = proxyURLHost
	}
	if firstHook == "" {
		if ncalls != 0 {
			fail("unexpected-hook-call", fmt.Sprintf("no custom dial function applies to the first hop but %d were called", ncalls))
			return
		}
	} else {
		if ncalls != 1 || call0.Name != firstHook || call0.Addr != wantAddr {
			fail("first-hop-hook", fmt.Sprintf("the first hop must be made once with %s(%q); hook log: %v", firstHook, wantAddr, desc["hook_calls"]))
			return
		}
	}
	// ---- proxy
	switch cell.Proxy {
	case 1, 2:
		hp.mu.Lock()
		reqs := append([]connectReq(nil), hp.Reqs...)
		tun := append([]string(nil), hp.Tunnels...)
		tlsIn, pconn := hp.TLSIn, hp.Conn
		afterRefusal := append([]byte(nil), hp.AfterRefusal...)
		hp.mu.Unlock()
		if len(afterRefusal) > 0 {
			desc["sent_after_refusal"] = fmt.Sprintf("%q", afterRefusal)
			fail("continues-after-proxy-refusal", fmt.Sprintf("the proxy answered CONNECT with status %d and the client went on sending %d bytes into the connection instead of aborting", status, len(afterRefusal)))
			return
		}
		desc["proxy_log"] = map[string]interface{}{"connections": pconn, "requests": reqs, "tls_in": tlsIn}
		out.Count("connect_requests_checked", 1)
		if pconn != 1 || len(reqs) != 1 {
			fail("connect-count", fmt.Sprintf("the proxy saw %d connections and %d requests, expected exactly one CONNECT", pconn, len(reqs)))
			return
		}
		rq := reqs[0]
		if rq.Method != "CONNECT" || rq.Target != backendHostPort {
			fail("connect-target", fmt.Sprintf("proxy received %s %q, expected CONNECT %q", rq.Method, rq.Target, backendHostPort))
			return
		}
		wantAuth := ""
		if cell.Creds == 2 {
			wantAuth = "Basic " + base64.StdEncoding.EncodeToString([]byte("alice:s3cr:t p@ss"))
		}
		switch {
		case wantAuth == "" && len(rq.Auth) != 0:
			fail("proxy-authorization-unexpected", fmt.Sprintf("Proxy-Authorization %q sent although the proxy URL carries no password", rq.Auth))
			return
		case wantAuth != "" && (len(rq.Auth) != 1 || rq.Auth[0] != wantAuth):
			fail("proxy-authorization", fmt.Sprintf("Proxy-Authorization is %q, expected %q", rq.Auth, wantAuth))
			return
		}
		if (cell.Proxy == 2) != (tlsIn == 1) {
			fail("proxy-hop-tls", fmt.Sprintf("proxy scheme %s but %d inbound TLS sessions", proxyNames[cell.Proxy], tlsIn))
			return
		}
		if cell.Refuse == 0 && !(bs.Conn == 1 && len(tun) == 1 && bs.From[0] == tun[0]) {
			fail("backend-not-through-proxy", fmt.Sprintf("backend connections %v, proxy tunnels %v", bs.From, tun))
			return
		}
	case 3:
		sp.mu.Lock()
		reqs := append([]socksReq(nil), sp.Reqs...)
		tun := append([]string(nil), sp.Tunnels...)
		pconn := sp.Conn
		sp.mu.Unlock()
		desc["proxy_log"] = map[string]interface{}{"connections": pconn, "requests": reqs}
		out.Count("connect_requests_checked", 1)
		if pconn != 1 || len(reqs) != 1 {
			fail("connect-count", fmt.Sprintf("the SOCKS5 proxy saw %d connections and %d requests, expected one CONNECT", pconn, len(reqs)))
			return
		}
		rq := reqs[0]
		if rq.Cmd != 1 || rq.Target != backendHostPort {
			fail("connect-target", fmt.Sprintf("SOCKS5 request cmd=%d target %q, expected CONNECT %q", rq.Cmd, rq.Target, backendHostPort))
			return
		}
		if cell.Creds > 0 {
			wantPw := ""
			if cell.Creds == 2 {
				wantPw = "s3cr:t p@ss"
			}
			if rq.Method != 2 || rq.User != "alice" || rq.Pass != wantPw {
				fail("socks-credentials", fmt.Sprintf("SOCKS5 authentication method %d user %q password %q", rq.Method, rq.User, rq.Pass))
				return
			}
		}
		if cell.Refuse == 0 && !(bs.Conn == 1 && len(tun) == 1 && bs.From[0] == tun[0]) {
			fail("backend-not-through-proxy", fmt.Sprintf("backend connections %v, proxy tunnels %v", bs.From, tun))
			return
		}
	}
	if cell.Refuse > 0 && bs.Conn != 0 {
		fail("backend-reached-despite-refusal", fmt.Sprintf("the proxy refused but the backend saw %d connections", bs.Conn))
		return
	}
	// ---- TLS to the backend
	if cell.WSS {
		out.Count("tls_sessions_checked", 1)
		if bs.PlainReqs != 0 {
			fail("handshake-in-clear-text", "the backend of a wss URL received the WebSocket request in clear text")
			return
		}
		if bs.DoubleTLS != 0 && !cell.HookTLS { // with HookTLS a second handshake inside the hook's session is exactly what must happen
			fail("tls-inside-tls", "the backend found a second TLS handshake inside the TLS session: the library added TLS on a hop where NetDialTLSContext had already done it")
			return
		}
		if cell.Cert != 0 {
			out.Count("bad_certificates_refused", 1)
			if bs.TLSReqs != 0 {
				fail("request-sent-to-unverified-peer", fmt.Sprintf("the certificate is not valid for the URL host (%s) but the backend received the WebSocket request", []string{"", "other host", "untrusted CA", "the proxy's host"}[cell.Cert]))
				return
			}
		} else if expSuccess && bs.TLSReqs != 1 {
			fail("tls-request-missing", fmt.Sprintf("backend saw %d requests inside TLS", bs.TLSReqs))
			return
		}
	} else if expSuccess {
		if bs.PlainReqs != 1 || bs.FirstByteTLS != 0 {
			fail("ws-request", fmt.Sprintf("plain backend saw %d clear-text requests, %d TLS attempts", bs.PlainReqs, bs.FirstByteTLS))
			return
		}
	}
	if expSuccess && (len(bs.Hosts) != 1 || bs.Hosts[0] != wantHostHdr) {
		fail("host-header", fmt.Sprintf("backend saw Host %q, expected %q (URL host %q)", bs.Hosts, wantHostHdr, urlHost))
		return
	}
	// history: a refused dial with credentials, then the same Dialer and proxy URL again:
	// the second CONNECT must carry the same Proxy-Authorization
	if hp != nil && cell.Refuse > 0 && cell.Creds == 2 {
		conn2, _, _ := d.Dial(target, reqHdr)
		if conn2 != nil {
			conn2.Close()
		}
		time.Sleep(5 * time.Millisecond)
		hp.mu.Lock()
		reqs := append([]connectReq(nil), hp.Reqs...)
		hp.mu.Unlock()
		out.Count("second_dials_after_a_refusal", 1)
		wantAuth := "Basic " + base64.StdEncoding.EncodeToString([]byte("alice:s3cr:t p@ss"))
		if len(reqs) != 2 || reqs[1].Method != "CONNECT" || reqs[1].Target != backendHostPort || len(reqs[1].Auth) != 1 || reqs[1].Auth[0] != wantAuth {
			desc["proxy_requests"] = reqs
			fail("second-dial-after-refusal", fmt.Sprintf("after a refused dial the same Dialer was used again: the proxy log now holds %d requests; the second must be CONNECT %q with Proxy-Authorization %q", len(reqs), backendHostPort, wantAuth))
			return
		}
		if pu := desc["proxy_url"]; pu != nil {
			if u, _ := d.Proxy(nil); u == nil || u.String() != pu.(string) {
				fail("proxy-url-modified", fmt.Sprintf("the application's proxy URL was %s before the dials and is %v now", pu, u))
				return
			}
		}
	}
	if ctx.Idx%47 == 0 {
		out.Sample(desc)
	}
}
