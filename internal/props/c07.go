package props

import (
	"bytes"
	"context"
	"fmt"
	"io"
	"net"
	"net/http"
	"net/url"
	"os"
	"os/exec"
	"path/filepath"
	"regexp"
	"runtime"
	"strings"
	"time"

	ws "github.com/gorilla/websocket"

	"verif/internal/core"
	"verif/internal/gen"
	"verif/internal/wire"
	"verif/internal/xport"
)

func init() {
	core.Register(&core.Prop{
		ID:    "C07",
		Level: "exploration",
		Rule: "four entry points (frame bytes -> Conn of either role with/without compression; bytes -> server reply seen by Dial; bytes -> proxy CONNECT reply seen by Dial; strings -> header values of an upgrade request seen by Upgrade/Subprotocols/IsWebSocketUpgrade), each fed by a deterministic structure-aware generator (valid inputs mutated by bit flips, length-field edits, truncation, splicing, duplication, dictionary tokens, raw random bytes); " +
			"the thorough tier additionally runs the four drivers as native Go coverage-guided fuzz targets, budgeted in executions; sanitizer variants (ASan, checkptr) replay a subset; " +
			"monitors: recover()/process death, reads after the script is exhausted and a per-case watchdog (logical hang), heap allocation counter vs. bytes received+delivered; distinct = hash of (entry point, input bytes); non-trivial = the input is not rejected at its first byte/line",
		Variants: func(tier string) []string { return []string{"plain", "asan", "checkptr"} },
		Cases: func(tier, variant string) int {
			n := 600
			if tier == "thorough" {
				n = 6000
			}
			if variant != "plain" {
				n /= 10
			} else if tier == "thorough" {
				n += 4 // the four native fuzz targets
			}
			return n
		},
		Run:          runC07,
		Required:     []string{"frame_inputs", "dial_reply_inputs", "proxy_reply_inputs", "header_inputs", "alloc_checks"},
		CaseTimeoutS: 1500,
		BeatTimeoutS: 40,
		Assumptions: []string{
			"allocation bound: 1 MiB + 16 x (bytes received + bytes delivered to the application), measured with runtime.MemStats.TotalAlloc around each driver call in a single-goroutine worker",
			"a hang is: more than 10000 transport reads after the input is exhausted, or the per-case watchdog firing twice (second time in isolation) with a library frame on the stack",
			"the documented panic on the 1000th read of a failed connection is never reached by the drivers (they stop at the first error)",
		},
	})
}

const c07PerCase = 400

// allocNow returns heap bytes allocated so far plus the stack memory in use (a
// library that recurses per message grows the stack, not the heap).
func allocNow() uint64 {
	var m runtime.MemStats
	runtime.ReadMemStats(&m)
	lastStack = m.StackInuse
	return m.TotalAlloc
}

// lastStack is the stack memory in use at the last allocNow call.
var lastStack uint64

// usedSince returns heap bytes allocated since before plus the growth of stack
// memory in use (never negative).
func usedSince(before, stackBefore uint64) uint64 {
	now := allocNow()
	used := now - before
	if lastStack > stackBefore {
		used += lastStack - stackBefore
	}
	return used
}

// DriveFrames feeds data to a Conn chosen by cfg and reads it with a program
// chosen by cfg. It returns a violation description or "".
func DriveFrames(cfg byte, data []byte, checkAlloc bool) (sig, what string, nontrivial bool) {
	server := cfg&1 != 0
	comp := cfg&2 != 0
	mode := int(cfg>>2) & 3
	rb := []int{0, 1, 125, 4096}[int(cfg>>4)&3]
	chunk := int(cfg>>6) & 3
	var chunks []xport.Chunk
	switch chunk {
	case 0:
		chunks = []xport.Chunk{{Data: data}}
	case 1:
		for i := range data {
			chunks = append(chunks, xport.Chunk{Data: data[i : i+1]})
		}
	case 2:
		h := len(data) / 2
		chunks = []xport.Chunk{{Data: data[:h]}, {Data: data[h:]}}
	default:
		for i := 0; i < len(data); i += 7 {
			j := i + 7
			if j > len(data) {
				j = len(data)
			}
			chunks = append(chunks, xport.Chunk{Data: data[i:j]})
		}
	}
	nc := xport.New(chunks)
	nc.NoLog = true
	var before, stackBefore uint64
	if checkAlloc {
		before = allocNow()
		stackBefore = lastStack
	}
	nMsgs := 0
	joinMode := false
	c := ws.VerifNewConn(nc, server, rb, 256, nil, nil, comp)
	if cfg&0x20 != 0 && mode == 3 {
		c.SetReadLimit(1 << 16)
	}
	if cfg&0x20 != 0 && mode == 0 {
		c.SetReadLimit(64 << 20) // a generous limit is a bound, not a size to allocate
	}
	if len(data)%4 == 1 {
		// documented: a nil handler selects the default one
		c.SetPongHandler(nil)
		c.SetPingHandler(nil)
		c.SetCloseHandler(nil)
	}
	abandon := len(data)%3 == 2 // streamed reads take one buffer-full and move on to the next message
	delivered := 0
	const cap = 4 << 20
	buf := make([]byte, 4096)
	if mode == 3 && cfg&0x20 == 0 {
		// JoinMessages with the (legal) empty terminator
		joinMode = true
		jr := ws.JoinMessages(c, "")
		for delivered < cap {
			n, e := jr.Read(buf)
			delivered += n
			nontrivial = nontrivial || n > 0
			if e != nil {
				break
			}
		}
		mode = -1
	}
	for i := 0; mode >= 0 && i < len(data)+16; i++ {
		var err error
		switch mode {
		case 0:
			if cfg&0x10 != 0 {
				// the one-call helper (it may size its buffer from what the header claims)
				var p []byte
				_, p, err = c.ReadMessage()
				delivered += len(p)
				nMsgs++
				if err != nil {
					if _, _, e2 := c.NextReader(); e2 == nil {
						err = nil
					}
				} else {
					nontrivial = true
				}
				break
			}
			// a failed message read does not end the connection: the application may
			// go on to the next message (NextReader decides)
			var r io.Reader
			_, r, err = c.NextReader()
			if err == nil {
				nontrivial = true
				nMsgs++
				p, _ := io.ReadAll(io.LimitReader(r, cap))
				delivered += len(p)
			}
		case 1, 3:
			var r io.Reader
			_, r, err = c.NextReader()
			if err == nil {
				nontrivial = true
				nMsgs++
				zeros := 0
				for delivered < cap {
					n, e := r.Read(buf[:1+len(data)%len(buf)])
					delivered += n
					if e != nil || abandon {
						break
					}
					if n == 0 {
						if zeros++; zeros > 100000 {
							return "C07:frames-read-loop", fmt.Sprintf("%d consecutive Read calls on a message reader returned (0, nil) without consuming input", zeros), true
						}
					} else {
						zeros = 0
					}
				}
			}
		default:
			var v interface{}
			err = c.ReadJSON(&v)
			nMsgs++
			if err != nil {
				// ReadJSON fails on non-JSON payloads without the connection failing:
				// find out with NextReader
				if _, _, e2 := c.NextReader(); e2 == nil {
					nontrivial = true
					err = nil
				}
			}
		}
		if err != nil || delivered >= cap {
			break
		}
	}
	if nc.ReadsAfterEnd > 10000 {
		return "C07:frames-read-loop", fmt.Sprintf("%d transport reads after the input was exhausted", nc.ReadsAfterEnd), nontrivial
	}
	if checkAlloc && !(mode == 2 && comp) { // ReadJSON hides how much was inflated; judged in the other modes
		used := usedSince(before, stackBefore)
		// what the application-facing helpers legitimately cost per message: io.ReadAll starts
		// with a 512-byte buffer, a json.Decoder with a few KiB, a streamed read with ~16 bytes
		perMsg := uint64(64)
		switch {
		case joinMode:
			perMsg = 0
		case mode == 0:
			perMsg = 1024
		case mode == 2:
			perMsg = 8192
		}
		bound := uint64(1<<20) + 16*uint64(len(data)+delivered+len(nc.Written())) + perMsg*uint64(nMsgs)
		if joinMode {
			bound += 32 * uint64(len(data)) // at most len/2 messages at 64 bytes each
		}
		if used > bound {
			return "C07:frames-allocation", fmt.Sprintf("%d bytes of heap+stack used for %d bytes received, %d delivered, %d messages (bound %d)", used, len(data), delivered, nMsgs, bound), nontrivial
		}
	}
	return "", "", nontrivial
}

// DriveDialReply presents data as the server's reply to Dial.
func DriveDialReply(cfg byte, data []byte, checkAlloc bool) (sig, what string, nontrivial bool) {
	var before, stackBefore uint64
	if checkAlloc {
		before = allocNow()
		stackBefore = lastStack
	}
	d := &ws.Dialer{EnableCompression: cfg&1 != 0, ReadBufferSize: []int{0, 1, 300}[int(cfg>>1)%3]}
	if cfg&8 != 0 {
		d.Subprotocols = []string{"chat"}
	}
	dialURL := "ws://fuzz.example/p"
	if cfg&16 != 0 {
		dialURL = "wss://fuzz.example/p" // TLS done by the application's NetDialTLSContext, TLSClientConfig nil
	}
	c, resp, err, nc := scriptedDial(d, dialURL, nil, func(req []byte) []xport.Chunk {
		rep := bytes.ReplaceAll(data, []byte("$ACCEPT$"), []byte(acceptDigest(reqHeader(req, "Sec-WebSocket-Key"))))
		return []xport.Chunk{{Data: rep}}
	})
	if (c == nil) == (err == nil) {
		return "C07:dial-result", fmt.Sprintf("Dial returned conn=%v err=%v", c != nil, err), true
	}
	nontrivial = resp != nil
	if c != nil {
		// the rest of the bytes are frames
		for i := 0; i < 64; i++ {
			if _, _, e := c.ReadMessage(); e != nil {
				break
			}
		}
	}
	if nc != nil && nc.ReadsAfterEnd > 10000 {
		return "C07:dial-read-loop", fmt.Sprintf("%d transport reads after the reply was exhausted", nc.ReadsAfterEnd), nontrivial
	}
	if checkAlloc {
		used := usedSince(before, stackBefore)
		if bound := uint64(1<<20) + 32*uint64(len(data)); used > bound {
			return "C07:dial-allocation", fmt.Sprintf("%d bytes allocated for a %d-byte reply (bound %d)", used, len(data), bound), nontrivial
		}
	}
	return "", "", nontrivial
}

// DriveProxyReply presents data as an HTTP proxy's reply to CONNECT.
func DriveProxyReply(cfg byte, data []byte, checkAlloc bool) (sig, what string, nontrivial bool) {
	var before, stackBefore uint64
	if checkAlloc {
		before = allocNow()
		stackBefore = lastStack
	}
	nc := xport.New(nil)
	heads := 0
	nc.OnWrite = func(all []byte) []xport.Chunk {
		n := bytes.Count(all, []byte("\r\n\r\n"))
		if n > heads {
			heads = n
			if n == 1 {
				return []xport.Chunk{{Data: data}}
			}
			return []xport.Chunk{{Data: good101(all[bytes.Index(all, []byte("\r\n\r\n"))+4:], "")}}
		}
		return nil
	}
	pu, _ := url.Parse("http://proxy.fuzz:3128")
	if cfg&1 != 0 {
		pu.User = url.UserPassword("u", "p")
	}
	d := &ws.Dialer{Proxy: func(*http.Request) (*url.URL, error) { return pu, nil }}
	d.NetDialContext = func(ctx context.Context, network, addr string) (net.Conn, error) { return nc, nil }
	c, _, err := d.Dial("ws://fuzz.example/p", nil)
	if (c == nil) == (err == nil) {
		return "C07:proxy-dial-result", fmt.Sprintf("Dial returned conn=%v err=%v", c != nil, err), true
	}
	nontrivial = heads > 0 && (c != nil || !strings.Contains(err.Error(), "malformed HTTP"))
	if nc.ReadsAfterEnd > 10000 {
		return "C07:proxy-read-loop", fmt.Sprintf("%d transport reads after the reply was exhausted", nc.ReadsAfterEnd), nontrivial
	}
	if checkAlloc {
		used := usedSince(before, stackBefore)
		if bound := uint64(1<<20) + 32*uint64(len(data)); used > bound {
			return "C07:proxy-allocation", fmt.Sprintf("%d bytes allocated for a %d-byte proxy reply (bound %d)", used, len(data), bound), nontrivial
		}
	}
	return "", "", nontrivial
}

var c07HeaderNames = []string{"Connection", "Upgrade", "Sec-Websocket-Version", "Sec-Websocket-Key", "Sec-Websocket-Protocol", "Sec-Websocket-Extensions", "Origin"}

// DriveHeaders puts value into header number which of an otherwise valid
// upgrade request and runs the server-side entry points.
func DriveHeaders(which byte, value string, second string, checkAlloc bool) (sig, what string, nontrivial bool) {
	var before, stackBefore uint64
	if checkAlloc {
		before = allocNow()
		stackBefore = lastStack
	}
	req := validRequest(someKey)
	name := c07HeaderNames[int(which)%len(c07HeaderNames)]
	vals := []string{value}
	if which&0x80 != 0 {
		vals = append(vals, second)
	}
	req.Header[name] = vals
	_ = ws.IsWebSocketUpgrade(req)
	_ = ws.Subprotocols(req)
	nc := xport.New(nil)
	w := newFakeRW(nc, nil, 4096)
	u := &ws.Upgrader{EnableCompression: which&0x40 != 0}
	if which&0x20 != 0 {
		u.Subprotocols = []string{"chat", "x"}
	}
	c, err := u.Upgrade(w, req, nil)
	if (c == nil) == (err == nil) {
		return "C07:upgrade-result", fmt.Sprintf("Upgrade returned conn=%v err=%v", c != nil, err), true
	}
	nontrivial = c != nil
	if checkAlloc {
		used := usedSince(before, stackBefore)
		if bound := uint64(1<<20) + 64*uint64(len(value)+len(second)); used > bound {
			return "C07:upgrade-allocation", fmt.Sprintf("%d bytes allocated for a %d-byte header value (bound %d)", used, len(value), bound), nontrivial
		}
	}
	return "", "", nontrivial
}

// ---------------------------------------------------------------- generators

var c07Dict = []string{"\r\n", "\r\n\r\n", "HTTP/1.1 ", "101", "200", "407", " ", ":", ",", ";", "=", "\"", "\\", "upgrade", "websocket", "Upgrade", "Connection", "Sec-WebSocket-Accept", "$ACCEPT$", "permessage-deflate", "server_no_context_takeover", "client_no_context_takeover",
	"Content-Length: ", "Transfer-Encoding: chunked", "0", "-1", "99999999999999999999", "\x00", "\xff", "\x7f", "\x81", "\x88", "\x7e", "\x7f\xff\xff\xff\xff\xff\xff\xff\xff", "\x00\x00\xff\xff", "13", "chat", "http://", "//", "@", "[", "]", "%", "%zz", "\t", "\n", "\r"}

func mutate(r *gen.R, in []byte) []byte {
	b := append([]byte(nil), in...)
	n := 1 + r.Intn(4)
	for i := 0; i < n; i++ {
		switch r.Intn(11) {
		case 0: // bit flip
			if len(b) > 0 {
				b[r.Intn(len(b))] ^= 1 << uint(r.Intn(8))
			}
		case 1: // byte set
			if len(b) > 0 {
				b[r.Intn(len(b))] = []byte{0, 1, 0x7d, 0x7e, 0x7f, 0x80, 0xfe, 0xff}[r.Intn(8)]
			}
		case 2: // truncate
			if len(b) > 0 {
				b = b[:r.Intn(len(b))]
			}
		case 3: // delete a range
			if len(b) > 1 {
				i := r.Intn(len(b))
				j := i + r.Intn(len(b)-i)
				b = append(b[:i], b[j:]...)
			}
		case 4: // duplicate a range
			if len(b) > 1 && len(b) < 1<<16 {
				i := r.Intn(len(b))
				j := i + r.Intn(len(b)-i)
				b = append(b[:j], append(append([]byte(nil), b[i:j]...), b[j:]...)...)
			}
		case 5: // insert dictionary token
			i := r.Intn(len(b) + 1)
			t := c07Dict[r.Intn(len(c07Dict))]
			b = append(b[:i], append([]byte(t), b[i:]...)...)
		case 6: // overwrite with dictionary token
			t := c07Dict[r.Intn(len(c07Dict))]
			if len(b) > len(t) {
				copy(b[r.Intn(len(b)-len(t)):], t)
			}
		case 7: // insert random bytes
			i := r.Intn(len(b) + 1)
			b = append(b[:i], append(r.Bytes(r.Range(1, 9)), b[i:]...)...)
		case 8: // splice with itself
			if len(b) > 2 {
				i := r.Intn(len(b))
				b = append(b[:i], b[r.Intn(len(b)):]...)
			}
		case 9: // swap two bytes
			if len(b) > 1 {
				i, j := r.Intn(len(b)), r.Intn(len(b))
				b[i], b[j] = b[j], b[i]
			}
		case 10: // arithmetic on a byte
			if len(b) > 0 {
				b[r.Intn(len(b))] += byte(r.Range(-3, 3))
			}
		}
	}
	return b
}

var c07Replies = []string{
	"HTTP/1.1 101 Switching Protocols\r\nUpgrade: websocket\r\nConnection: Upgrade\r\nSec-WebSocket-Accept: $ACCEPT$\r\n\r\n",
	"HTTP/1.1 101 Switching Protocols\r\nUpgrade: websocket\r\nConnection: Upgrade\r\nSec-WebSocket-Accept: $ACCEPT$\r\nSec-WebSocket-Extensions: permessage-deflate; server_no_context_takeover; client_no_context_takeover\r\nSec-WebSocket-Protocol: chat\r\n\r\n\x81\x05hello\x88\x02\x03\xe8",
	"HTTP/1.1 400 Bad Request\r\nContent-Length: 11\r\nContent-Type: text/plain\r\n\r\nbad request",
	"HTTP/1.1 200 OK\r\nTransfer-Encoding: chunked\r\n\r\n5\r\nhello\r\n0\r\n\r\n",
	"HTTP/1.1 301 Moved\r\nLocation: ws://elsewhere/\r\nSet-Cookie: a=b\r\nContent-Length: 0\r\n\r\n",
	"HTTP/1.0 101 Switching Protocols\r\nupgrade: WebSocket\r\nconnection: keep-alive, Upgrade\r\nsec-websocket-accept: $ACCEPT$\r\n\r\n",
}

var c07ProxyReplies = []string{
	"HTTP/1.1 200 Connection established\r\n\r\n",
	"HTTP/1.1 200 OK\r\nProxy-Agent: x\r\nContent-Length: 0\r\n\r\n",
	"HTTP/1.1 407 Proxy Authentication Required\r\nProxy-Authenticate: Basic realm=\"x\"\r\nContent-Length: 4\r\n\r\nnope",
	"HTTP/1.1 502 Bad Gateway\r\n\r\n",
	"HTTP/1.0 200 \r\n\r\n",
	"HTTP/1.1 407\r\n\r\n",
	"HTTP/1.1 200 OK\r\nTransfer-Encoding: chunked\r\n\r\n0\r\n\r\n",
}

var c07HeaderSeeds = []string{"Upgrade", "keep-alive, Upgrade", "websocket", "13", "8, 13", someKey, "chat, superchat", "permessage-deflate; client_max_window_bits", "permessage-deflate; server_max_window_bits=\"10\", foo; a=\"b\\\"c\"", "http://example.test", "https://EXAMPLE.test:443/p", "null", "", "a=\"", "x;y;z=\"\\", "\"\\\"\\\"\"", ",,,,", ";;;;", "= = =", "foo; bar=\"baz"}

func genFrameInput(r *gen.R) []byte {
	fromClient := r.Bool()
	st := genStream(r, StreamOpts{FromClient: fromClient, Comp: r.Bool(), MaxMsgs: 3, MaxSize: 300, Controls: true, Close: r.Bool()})
	switch r.Intn(10) {
	case 0:
		return r.Bytes(r.Range(0, 64)) // raw noise
	case 1:
		return st.Bytes
	case 2, 4:
		// hostile lengths
		f := wire.Frame{Fin: r.Bool(), Op: []int{0, 1, 2, 8, 9, 10}[r.Intn(6)], Masked: r.Bool(), Rsv1: r.Bool(), Payload: r.Bytes(r.Range(0, 40)), HasClaim: true, LenForm: []int{7, 16, 64}[r.Intn(3)]}
		// claimed lengths far beyond what is delivered (kept <= 64 MiB or absurdly large so that a
		// library that allocated by the claim would show in the allocation counter or panic in
		// makeslice, without exhausting the machine)
		f.ClaimLen = []uint64{0, 1, 125, 126, 127, 65535, 65536, 1 << 22, 1 << 24, 1 << 26, 1 << 62, 1<<63 - 1, 1 << 63, 1<<64 - 1}[r.Intn(14)]
		if r.Bool() {
			f.LenForm = 64
			f.Masked = fromClient
			f.Op = 1 + r.Intn(2)
		}
		// after a prefix that ends on a frame boundary (or mid-frame, one time in four)
		cut := st.FrameOff[r.Intn(len(st.FrameOff))]
		if r.Chance(1, 4) {
			cut = r.Intn(len(st.Bytes) + 1)
		}
		return append(append([]byte(nil), st.Bytes[:cut]...), wire.Append(nil, f)...)
	case 5:
		// a long unbroken run of empty messages
		n := r.Range(200, 30000)
		one := wire.Append(nil, wire.Frame{Fin: true, Op: 1 + r.Intn(2), Masked: fromClient})
		return bytes.Repeat(one, n)
	case 6:
		// many compressed messages whose DEFLATE data is invalid (the connection itself stays healthy)
		n := r.Range(20, 400)
		one := wire.Append(nil, wire.Frame{Fin: true, Rsv1: true, Op: 2, Masked: fromClient, Payload: []byte{0xff, 0xfe, 0xfd, 0x07, 0x99}})
		return bytes.Repeat(one, n)
	case 7:
		// a long-lived healthy connection: a thousand or more heartbeat frames, then a message
		n := r.Range(900, 1400)
		var b []byte
		for k := 0; k < n; k++ {
			op := 10
			if k%32 == 5 {
				op = 9
			}
			b = wire.Append(b, wire.Frame{Fin: true, Op: op, Masked: fromClient, Key: [4]byte{byte(k), 1, 2, 3}, Payload: []byte{byte(k)}[:k%2]})
		}
		return wire.Append(b, wire.Frame{Fin: true, Op: 1, Masked: fromClient, Payload: []byte("still alive")})
	case 3:
		// compressed garbage / deflate bombs
		p := bytes.Repeat([]byte{0}, r.Range(1, 2000))
		if r.Bool() {
			// valid stored-less stream of zeros at high ratio, produced by the stdlib writer is
			// avoided on purpose; use a hand-made fixed-Huffman run: literal 0 then max-length matches
			p = deflateBomb(r.Range(1, 60))
			if r.Chance(1, 3) {
				p = deflateBomb(r.Range(200, 700)) // inflates to 50-180 KB: beyond the 64 KiB read limit some executions set
			}
		}
		f := wire.Frame{Fin: true, Rsv1: true, Op: 2, Masked: fromClient, Payload: p}
		return wire.Append(nil, f)
	}
	return mutate(r, st.Bytes)
}

// deflateBomb returns a fixed-Huffman block: one literal 0x00 followed by n
// matches of length 258 at distance 1, no end-of-block (the tail supplies the rest).
func deflateBomb(n int) []byte {
	var acc uint64
	var nb uint
	var out []byte
	put := func(v uint32, k uint) {
		acc |= uint64(v) << nb
		nb += k
		for nb >= 8 {
			out = append(out, byte(acc))
			acc >>= 8
			nb -= 8
		}
	}
	rev := func(v uint32, k uint) uint32 {
		var x uint32
		for i := uint(0); i < k; i++ {
			x = x<<1 | (v>>i)&1
		}
		return x
	}
	put(0, 1)                // BFINAL=0
	put(1, 2)                // fixed Huffman
	put(rev(0x30, 8), 8)     // literal 0
	for i := 0; i < n; i++ { // length 258 = symbol 285 (8-bit code 0xc5), distance 1 = code 0 (5 bits)
		put(rev(0xc5, 8), 8)
		put(0, 5)
	}
	put(0, 7) // end of block (symbol 256 = 7-bit code 0)
	put(0, 3) // empty stored block header; 00 00 ff ff stripped
	if nb > 0 {
		out = append(out, byte(acc))
	}
	return out
}

func runC07(ctx *core.Ctx, out *core.Out) {
	nDet := 600
	if ctx.Thorough() {
		nDet = 6000
	}
	if ctx.Variant == "plain" && ctx.Thorough() && ctx.Idx >= nDet {
		c07Fuzz(ctx, out, ctx.Idx-nDet)
		return
	}
	r := ctx.R
	checkAlloc := ctx.Variant == "plain"
	if ctx.Variant == "plain" && ctx.Idx%60 == 1 {
		c07StalledWriter(ctx, out)
	}
	report := func(sig, what, entry string, cfg byte, input []byte) {
		out.Violate(sig, what, map[string]interface{}{"entry_point": entry, "cfg": cfg, "input_hex": fmt.Sprintf("%x", input), "input": fmt.Sprintf("%q", input)})
	}
	for i := 0; i < c07PerCase; i++ {
		cfg := byte(r.Intn(256))
		switch i % 4 {
		case 0:
			in := genFrameInput(r)
			if len(in) > 1<<16 {
				in = in[:1<<16]
			}
			ctx.Beat()
			sig, what, nt := DriveFrames(cfg, in, checkAlloc)
			out.EvalH(core.Hash("f"+string(in))^uint64(cfg), nt)
			out.Count("frame_inputs", 1)
			if sig != "" {
				report(sig, what, "frames", cfg, in)
				return
			}
		case 1:
			in := []byte(c07Replies[r.Intn(len(c07Replies))])
			if !r.Chance(1, 8) {
				in = mutate(r, in)
			}
			ctx.Beat()
			sig, what, nt := DriveDialReply(cfg, in, checkAlloc)
			out.EvalH(core.Hash("d"+string(in))^uint64(cfg), nt)
			out.Count("dial_reply_inputs", 1)
			if sig != "" {
				report(sig, what, "dial-reply", cfg, in)
				return
			}
		case 2:
			in := []byte(c07ProxyReplies[r.Intn(len(c07ProxyReplies))])
			if !r.Chance(1, 6) {
				in = mutate(r, in)
			}
			ctx.Beat()
			sig, what, nt := DriveProxyReply(cfg, in, checkAlloc)
			out.EvalH(core.Hash("p"+string(in))^uint64(cfg), nt)
			out.Count("proxy_reply_inputs", 1)
			if sig != "" {
				report(sig, what, "proxy-reply", cfg, in)
				return
			}
		default:
			v := c07HeaderSeeds[r.Intn(len(c07HeaderSeeds))]
			if !r.Chance(1, 6) {
				v = string(mutate(r, []byte(v)))
			}
			v2 := c07HeaderSeeds[r.Intn(len(c07HeaderSeeds))]
			ctx.Beat()
			sig, what, nt := DriveHeaders(cfg, v, v2, checkAlloc)
			out.EvalH(core.Hash("h"+v+"|"+v2)^uint64(cfg), nt)
			out.Count("header_inputs", 1)
			if sig != "" {
				report(sig, what, "headers:"+c07HeaderNames[int(cfg)%len(c07HeaderNames)], cfg, []byte(v))
				return
			}
		}
		if checkAlloc {
			out.Count("alloc_checks", 1)
		}
	}
	if !checkAlloc {
		out.Count("alloc_checks", 0)
	}
	if ctx.Idx%97 == 0 {
		in := genFrameInput(r)
		out.Sample(map[string]interface{}{"entry_point": "frames", "input_hex": core.Trunc(in, 80)})
	}
}

// ---------------------------------------------------------------- native fuzzing (thorough)

var c07FuzzTargets = []string{"FuzzFrames", "FuzzDialReply", "FuzzProxyReply", "FuzzHeaders"}

var fuzzExecsRe = regexp.MustCompile(`execs: (\d+)`)

func c07Fuzz(ctx *core.Ctx, out *core.Out, which int) {
	target := c07FuzzTargets[which%len(c07FuzzTargets)]
	bin := filepath.Join(os.Getenv("WSVERIF_BINDIR"), "fuzz", "fuzz.test")
	if _, err := os.Stat(bin); err != nil {
		out.Inconcl("native fuzz binary not built: " + err.Error())
		out.Eval("fuzz-missing|"+target, false)
		return
	}
	root := os.Getenv("VERIF_ROOT")
	if root == "" {
		root = "/verif"
	}
	work, err := os.MkdirTemp(filepath.Join(root, ".build"), "fuzz-"+target+"-")
	if err != nil {
		out.Inconcl(err.Error())
		return
	}
	defer os.RemoveAll(work)
	budget := os.Getenv("WSVERIF_FUZZ_EXECS")
	if budget == "" {
		budget = "1500000"
	}
	cmd := exec.Command(bin, "-test.run=^$", "-test.fuzz=^"+target+"$", "-test.fuzztime="+budget+"x", "-test.fuzzcachedir="+filepath.Join(work, "cache"), "-test.parallel=4", "-test.timeout=20m")
	cmd.Dir = work
	cmd.Env = append(os.Environ(), "WSVERIF_FUZZ_SEED="+fmt.Sprint(ctx.Seed))
	t0 := time.Now()
	stopBeat := make(chan struct{})
	go func() { // the fuzzing engine has its own per-input timeout (-test.timeout bounds the whole run)
		for {
			select {
			case <-stopBeat:
				return
			case <-time.After(5 * time.Second):
				ctx.Beat()
			}
		}
	}()
	ob, rerr := cmd.CombinedOutput()
	close(stopBeat)
	o := string(ob)
	execs := int64(0)
	for _, m := range fuzzExecsRe.FindAllStringSubmatch(o, -1) {
		var n int64
		fmt.Sscan(m[1], &n)
		if n > execs {
			execs = n
		}
	}
	out.Count("native_fuzz_execs", execs)
	out.Count("native_fuzz_targets_run", 1)
	out.Evals += execs
	out.EvalH(core.Hash("fuzz|"+target), true)
	out.EvalH(core.Hash("fuzz2|"+target), true)
	if rerr != nil {
		// a crasher: its input is under work/testdata/fuzz/<target>/
		var inputs []string
		files, _ := filepath.Glob(filepath.Join(work, "testdata", "fuzz", target, "*"))
		for _, f := range files {
			b, _ := os.ReadFile(f)
			inputs = append(inputs, string(b))
		}
		if len(inputs) == 0 && !strings.Contains(o, "FAIL") {
			out.Inconcl("fuzz binary failed without a finding: " + tail2(o, 600))
			return
		}
		sig := "C07:fuzz-crasher:" + target
		if m := regexp.MustCompile(`VERIF-VIOLATION (\S+)`).FindStringSubmatch(o); m != nil {
			sig = m[1]
		} else if strings.Contains(o, "panic:") {
			sig = "C07:fuzz-panic:" + target
		}
		out.Violate(sig, "coverage-guided fuzzing of "+target+" found a failing input", map[string]interface{}{"target": target, "crasher_files": inputs, "output": tail2(o, 4000)})
		return
	}
	out.Sample(map[string]interface{}{"native_fuzz_target": target, "execs": execs, "seconds": time.Since(t0).Seconds()})
}

func tail2(s string, n int) string {
	if len(s) > n {
		return "..." + s[len(s)-n:]
	}
	return s
}

// c07StalledWriter: bytes from the peer (a ping, a close, and a mutated variant of
// them) arrive while another goroutine is stalled inside the transport's Write.
// The read call must come back (the handlers' writes are best effort with a
// one-second limit); still blocked 30 s later = hang.
func c07StalledWriter(ctx *core.Ctx, out *core.Out) {
	r := gen.For(ctx.Seed, "c07/stalled", ctx.Idx)
	cfg := genCfg(r)
	a, b := xport.NewPipe()
	gate := make(chan struct{})
	a.Gate = gate
	a.GateIf = func(p []byte) bool { return len(p) > 0 && p[0]&0x0f <= 2 }
	a.Gated = make(chan struct{}, 1)
	defer close(gate)
	c := newConn(a, cfg, nil, 0)
	go c.WriteMessage(2, []byte("the peer stopped reading"))
	select {
	case <-a.Gated:
	case <-time.After(20 * time.Second):
		out.Inconcl("stalled-writer probe: the writer never reached the transport")
		return
	}
	mk := func(op int, p []byte) []byte {
		return wire.Append(nil, wire.Frame{Fin: true, Op: op, Masked: cfg.Server, Key: [4]byte{1, 1, 2, 3}, Payload: p})
	}
	in := append(mk(9, []byte("ping")), mk(8, wire.MkClose(1000+r.Intn(4), ""))...)
	if r.Bool() {
		in = append(mk(10, nil), in...)
	}
	res := make(chan error, 1)
	go func() {
		for {
			if _, _, err := c.ReadMessage(); err != nil {
				res <- err
				return
			}
		}
	}()
	b.Write(in)
	out.Count("stalled_writer_probes", 1)
	out.Eval(fmt.Sprintf("stalled|%s|%x", cfg, in), true)
	select {
	case <-res:
	case <-time.After(30 * time.Second):
		out.Violate("C07:read-hangs-behind-stalled-writer", "a ping and a close from the peer arrived while another goroutine was stalled inside the transport's Write; the read call is still blocked 30 s later", map[string]interface{}{"cfg": cfg, "input_hex": fmt.Sprintf("%x", in)})
	}
	a.Close()
	b.Close()
}
