package props

import (
	"bytes"
	"encoding/json"
	"fmt"

	"verif/internal/gen"
	"verif/internal/wire"
	"verif/internal/xport"
	"verif/internal/zflate"
)

// Ev is one thing a conformant stream obliges the reader to surface, in wire
// order (a data message is positioned at its first frame).
type Ev struct {
	Kind   int // 1/2 data (message type), 8 close, 9 ping, 10 pong
	Data   []byte
	Code   int
	Reason string
	First  int // index of first frame
	Last   int // index of last frame
	Comp   bool
	// BFinal: the DEFLATE stream of this compressed message carries a BFINAL=1
	// block, so an inflater legitimately reaches end-of-stream before the last
	// (contentless) payload bytes have arrived.
	BFinal bool
	// JSON: the payload is one JSON value (readable with ReadJSON)
	JSON bool
}

// Stream is a peer stream built by the independent encoder.
type Stream struct {
	Frames   []wire.Frame
	Events   []Ev
	Bytes    []byte
	FrameOff []int // FrameOff[i] = start of frame i; FrameOff[len] = len(Bytes)
	Deflater string
	Desc     []string
	Rejected int // compressed candidates the foreign inflater did not vouch for
}

type StreamOpts struct {
	FromClient bool // peer is a client => frames masked
	Comp       bool // permessage-deflate negotiated
	MaxMsgs    int
	MaxSize    int
	Controls   bool
	Close      bool // end with a valid close frame
	CloseCode  int  // 0 = draw one
	NoEmpty    bool // no zero-length fragments
	UseZlib    bool
	JSON       bool // make some text messages JSON documents
	CtlDen     int  // a control frame is inserted with probability 1/CtlDen at each slot (default 4)
	Reason     int  // -1 = draw; otherwise the close reason length
	HasReason  bool
	LongRuns   bool // one stream in 25 carries a run of 100-1500 tiny control frames at one slot (a long-lived connection's heartbeats)
}

func maskKey(r *gen.R) [4]byte {
	switch r.Intn(8) {
	case 0:
		return [4]byte{}
	case 1:
		return [4]byte{0xff, 0xff, 0xff, 0xff}
	case 2:
		return [4]byte{0, 0, 0, 1}
	case 3:
		return [4]byte{0x80, 0, 0, 0}
	}
	var k [4]byte
	r.Fill(k[:])
	return k
}

var validCloseCodes = []int{1000, 1001, 1002, 1003, 1007, 1008, 1009, 1010, 1011, 3000, 3999, 4000, 4999}

func utf8Reason(r *gen.R, n int) string {
	parts := []string{"a", "z", "é", "ß", "→", "世", "界", "😀", " ", "ok", "\ufffd", "\u0000", "\U0010ffff"}
	var b []byte
	for len(b) < n {
		p := parts[r.Intn(len(parts))]
		if len(b)+len(p) > n {
			p = "x"
		}
		b = append(b, p...)
	}
	return string(b)
}

// compressPayload produces a permessage-deflate payload for data with either my
// encoder or zlib, admitted only when a foreign inflater reproduces data.
func compressPayload(r *gen.R, data []byte, useZlib bool, st *Stream) ([]byte, bool, bool) {
	peer, perr := zflate.GetPeer()
	if useZlib && perr == nil && r.Bool() {
		mode := r.Intn(4)
		z, err := peer.Deflate(r.Range(0, 9), r.Range(9, 15), r.Range(1, 9), r.Intn(5), mode, data)
		if err == nil {
			if got, e := wire.Inflate(z); e == nil && bytes.Equal(got, data) {
				st.Deflater = "zlib"
				st.Desc = append(st.Desc, fmt.Sprintf("zlib(mode=%d,%d->%d)", mode, len(data), len(z)))
				return z, true, mode == 3
			}
		}
		st.Rejected++
		return nil, false, false
	}
	o := zflate.Options{Final: r.Chance(1, 5), MidFlush: r.Chance(1, 3)}
	z, info := zflate.Message(data, r, o)
	ok := false
	if perr == nil && useZlib {
		got, e := peer.Inflate(z)
		ok = e == nil && bytes.Equal(got, data)
	} else {
		got, e := wire.Inflate(z)
		ok = e == nil && bytes.Equal(got, data)
	}
	if !ok {
		st.Rejected++
		return nil, false, false
	}
	if st.Deflater == "" {
		st.Deflater = "own"
	}
	st.Desc = append(st.Desc, fmt.Sprintf("own(blocks=%v,matches=%d,final=%v,flushes=%d,%d->%d)", info.Blocks, info.Matches, info.Final, info.Flushes, len(data), len(z)))
	return z, true, info.Final
}

func genControl(r *gen.R, masked bool) (wire.Frame, Ev) {
	op := 9 + r.Intn(2)
	n := r.Range(0, 125)
	if r.Chance(1, 3) {
		n = []int{0, 1, 124, 125}[r.Intn(4)]
	}
	p := r.Payload(r.Intn(gen.NPayloadClasses), n)
	f := wire.Frame{Fin: true, Op: op, Masked: masked, Payload: p}
	if masked {
		f.Key = maskKey(r)
	}
	return f, Ev{Kind: op, Data: p}
}

// genStream draws a conformant stream.
func genStream(r *gen.R, o StreamOpts) *Stream {
	st := &Stream{}
	nmsg := r.Range(1, o.MaxMsgs)
	addFrame := func(f wire.Frame) int {
		st.Frames = append(st.Frames, f)
		return len(st.Frames) - 1
	}
	longRun := 0
	if o.LongRuns && o.Controls && r.Chance(1, 25) {
		longRun = []int{100, 101, 150, 999, 1000, 1001, 1500}[r.Intn(7)]
	}
	ctl := func() {
		if !o.Controls {
			return
		}
		if longRun > 0 && r.Chance(1, 3) {
			for k := 0; k < longRun; k++ {
				op := 10
				if k%16 == 7 {
					op = 9
				}
				p := []byte{byte(k), byte(k >> 8)}[:k%3]
				f := wire.Frame{Fin: true, Op: op, Masked: o.FromClient, Payload: p}
				if o.FromClient {
					f.Key = maskKey(r)
				}
				i := addFrame(f)
				st.Events = append(st.Events, Ev{Kind: op, Data: p, First: i, Last: i})
			}
			longRun = 0
		}
		den := o.CtlDen
		if den == 0 {
			den = 4
		}
		for r.Chance(1, den) {
			f, ev := genControl(r, o.FromClient)
			i := addFrame(f)
			ev.First, ev.Last = i, i
			st.Events = append(st.Events, ev)
		}
	}
	for m := 0; m < nmsg; m++ {
		ctl()
		typ := 1 + r.Intn(2)
		n := r.BoundarySize(r.Pick(gen.BufSizes), o.MaxSize)
		data := r.Payload(r.Intn(gen.NPayloadClasses), n)
		isJSON := false
		if o.JSON && r.Chance(1, 4) {
			typ = 1
			if r.Chance(1, 4) {
				typ = 2 // JSON carried in a binary message: ReadJSON does not care about the type
			}
			data, _ = json.Marshal(genJSONVal(r))
			isJSON = true
			if r.Chance(1, 5) {
				// a message may hold more than one JSON text (a batch of lines) or trailing white space:
				// ReadJSON takes the first value; the rest of that message is nobody's business
				more, _ := json.Marshal(genJSONVal(r))
				data = append(append(append(data, '\n'), more...), '\n')
			}
		}
		raw := data
		comp, bfinal := false, false
		if o.Comp && r.Bool() {
			if z, ok, bf := compressPayload(r, data, o.UseZlib, st); ok {
				raw, comp, bfinal = z, true, bf
			}
		}
		var sizes []int
		if o.NoEmpty {
			for _, k := range r.Splits(len(raw)) {
				if k > 0 {
					sizes = append(sizes, k)
				}
			}
		} else {
			sizes = r.Splits(len(raw))
			// runs of empty frames
			if r.Chance(1, 6) {
				k := r.Range(1, 4)
				pos := r.Intn(len(sizes) + 1)
				ins := make([]int, k)
				sizes = append(sizes[:pos], append(ins, sizes[pos:]...)...)
			}
		}
		if len(sizes) == 0 {
			sizes = []int{len(raw)}
		}
		ev := Ev{Kind: typ, Data: data, Comp: comp, BFinal: bfinal, JSON: isJSON}
		off := 0
		for i, k := range sizes {
			f := wire.Frame{Op: wire.OpCont, Masked: o.FromClient, Payload: raw[off : off+k]}
			off += k
			if i == 0 {
				f.Op = typ
				f.Rsv1 = comp
			}
			f.Fin = i == len(sizes)-1
			if o.FromClient {
				f.Key = maskKey(r)
			}
			idx := addFrame(f)
			if i == 0 {
				ev.First = idx
				st.Events = append(st.Events, ev)
			}
			st.Events[len(st.Events)-1-countCtlSince(st, ev.First)].Last = idx
			if !f.Fin {
				ctl()
			}
		}
	}
	ctl()
	if o.Close {
		code := o.CloseCode
		if code == 0 {
			code = validCloseCodes[r.Intn(len(validCloseCodes))]
			if r.Chance(1, 3) {
				code = r.Range(3000, 4999)
			}
		}
		var p []byte
		ev := Ev{Kind: 8, Code: 1005}
		if !(o.CloseCode == 0 && r.Chance(1, 6)) {
			rl := []int{0, 1, 20, 123}[r.Intn(4)]
			if o.HasReason {
				rl = o.Reason
			}
			reason := utf8Reason(r, rl)
			p = wire.MkClose(code, reason)
			ev.Code, ev.Reason = code, reason
		}
		f := wire.Frame{Fin: true, Op: 8, Masked: o.FromClient, Payload: p}
		if o.FromClient {
			f.Key = maskKey(r)
		}
		i := addFrame(f)
		ev.First, ev.Last, ev.Data = i, i, p
		st.Events = append(st.Events, ev)
	}
	st.finish()
	return st
}

// countCtlSince returns how many control events were appended after the data
// event whose first frame is `first` (so that its Last can be updated).
func countCtlSince(st *Stream, first int) int {
	n := 0
	for i := len(st.Events) - 1; i >= 0; i-- {
		e := st.Events[i]
		if (e.Kind == 1 || e.Kind == 2) && e.First == first {
			return n
		}
		n++
	}
	return 0
}

func (st *Stream) finish() {
	st.Bytes = st.Bytes[:0]
	st.FrameOff = st.FrameOff[:0]
	for _, f := range st.Frames {
		st.FrameOff = append(st.FrameOff, len(st.Bytes))
		st.Bytes = wire.Append(st.Bytes, f)
	}
	st.FrameOff = append(st.FrameOff, len(st.Bytes))
}

// DataEvents returns the data messages of the stream in order.
func (st *Stream) DataEvents() []Ev {
	var out []Ev
	for _, e := range st.Events {
		if e.Kind == 1 || e.Kind == 2 {
			out = append(out, e)
		}
	}
	return out
}

func (st *Stream) Summary() string {
	return fmt.Sprintf("%d frames %d bytes: %s", len(st.Frames), len(st.Bytes), framesDesc(st.Frames, 14))
}

// AlignedChunks cuts Bytes[:cut] at frame starts and payload starts (the places
// where a bufio.Reader in front of the transport is exactly drained), merging
// neighbouring pieces at random.
func (st *Stream) AlignedChunks(cut int, r *gen.R) []xport.Chunk {
	var bounds []int
	for i := range st.Frames {
		bounds = append(bounds, st.FrameOff[i], st.FrameOff[i+1]-len(st.Frames[i].Payload))
	}
	var out []xport.Chunk
	prev := 0
	lastB := -1
	for _, b := range bounds {
		if b > 0 && b < cut {
			lastB = b
		}
	}
	for _, b := range bounds {
		if b <= prev || b >= cut {
			continue
		}
		if b != lastB && r.Chance(1, 4) {
			continue // merge
		}
		out = append(out, xport.Chunk{Data: st.Bytes[prev:b]})
		prev = b
	}
	if cut > prev {
		out = append(out, xport.Chunk{Data: st.Bytes[prev:cut]})
	}
	return out
}
