package props

import (
	"bytes"
	crand "crypto/rand"
	"encoding/json"
	"fmt"
	"io"
	"net"
	"reflect"
	"sync"
	"time"

	ws "github.com/gorilla/websocket"

	"verif/internal/core"
	"verif/internal/gen"
	"verif/internal/wire"
	"verif/internal/xport"
)

// ---------------------------------------------------------------- mask tap

type maskTap struct {
	mu    sync.Mutex
	src   io.Reader
	drawn []byte
	det   *gen.R // when set, serve deterministic bytes instead of src
}

func (t *maskTap) Read(p []byte) (int, error) {
	t.mu.Lock()
	defer t.mu.Unlock()
	var n int
	var err error
	if t.det != nil {
		t.det.Fill(p)
		n = len(p)
	} else {
		n, err = t.src.Read(p)
	}
	t.drawn = append(t.drawn, p[:n]...)
	return n, err
}

func (t *maskTap) Reset() {
	t.mu.Lock()
	t.drawn = t.drawn[:0]
	t.mu.Unlock()
}

func (t *maskTap) Drawn() []byte {
	t.mu.Lock()
	defer t.mu.Unlock()
	return append([]byte(nil), t.drawn...)
}

var (
	tapOnce      sync.Once
	tap          *maskTap
	tapIdentity  bool
	origMaskRand io.Reader
)

// installTap swaps the package's mask source for a forwarding tap (once per
// process) and reports whether the original source was crypto/rand.Reader.
func installTap() (*maskTap, bool) {
	tapOnce.Do(func() {
		origMaskRand = ws.VerifMaskRand()
		tapIdentity = origMaskRand == crand.Reader
		tap = &maskTap{src: origMaskRand}
		ws.VerifSetMaskRand(tap)
	})
	return tap, tapIdentity
}

// ---------------------------------------------------------------- engine

type rtCase struct {
	Cfg     Cfg      `json:"cfg"`
	Prog    []string `json:"prog"`
	RCfg    Cfg      `json:"reader_cfg"`
	Chunk   int      `json:"chunk_style"`
	RMode   int      `json:"read_mode"` // -1 mixed, 0 ReadMessage, 1 NextReader, 2 JSON where possible, 3 Join
	Upgrade bool     `json:"via_upgrade,omitempty"`
}

type rtRun struct {
	dialOffered bool
	desc        rtCase
	prog        []WStep
	w           *Writer
	wconn       *xport.Conn
	written     []byte
	pool        *TrackPool
}

// rtInvalid: the program generator also draws invalid requests (set by C02 around its calls;
// C01 treats every refused step as a refused valid write).
var rtInvalid bool

func genRT(r *gen.R, thorough bool) (Cfg, []WStep) {
	cfg := genCfg(r)
	max := 70000
	if r.Chance(1, 8) {
		max = 200 << 10
	}
	if thorough && r.Chance(1, 200) {
		max = 4 << 20
	}
	if cfg.WB < 64 && !r.Chance(1, 25) {
		max = 4000 // tiny buffers: keep the frame count per case affordable
	}
	prog := genProgram(r, cfg, ProgOpts{MaxMsgs: 7, MaxSize: max, FailSource: true, Invalid: rtInvalid})
	return cfg, prog
}

// regenFor redraws the program for an adjusted configuration.
func regenFor(r *gen.R, cfg Cfg, thorough bool) (Cfg, []WStep) {
	max := 70000
	if r.Chance(1, 8) {
		max = 200 << 10
	}
	return cfg, genProgram(r, cfg, ProgOpts{MaxMsgs: 7, MaxSize: max, FailSource: true, Invalid: rtInvalid})
}

func execWrite(cfg Cfg, prog []WStep) *rtRun { return execWriteVia(cfg, prog, false) }

// execWriteVia runs the program; with viaUpgrade the server connection is built
// by the real Upgrader.Upgrade over a Hijacker spy with ReadBufferSize and
// WriteBufferSize 0, which makes the library reuse the hijacked bufio buffers.
// It returns nil when that set-up handshake fails (counted as skipped by callers).
func execWriteVia(cfg Cfg, prog []WStep, viaUpgrade bool) *rtRun {
	run := &rtRun{prog: prog, pool: &TrackPool{}}
	run.wconn = xport.New(nil)
	var c *ws.Conn
	head := 0
	if viaUpgrade && !cfg.Server {
		// client connection built by the real Dialer.Dial over the scripted conn; the
		// reply announces permessage-deflate iff cfg.Comp (the client offers it always
		// when cfg.Comp, and half of the time when the server will decline)
		offer := cfg.Comp || len(prog)%2 == 0
		d := &ws.Dialer{EnableCompression: offer, WriteBufferSize: cfg.WB, ReadBufferSize: cfg.RB}
		if cfg.Pool {
			d.WriteBufferPool = run.pool.Front(0)
		}
		extra := ""
		if cfg.Comp {
			extra = "Sec-WebSocket-Extensions: " + deflateParams + "\r\n"
		}
		run.wconn.OnWrite = func(all []byte) []xport.Chunk {
			if i := bytes.Index(all, []byte("\r\n\r\n")); i >= 0 && head == 0 {
				head = i + 4
				return []xport.Chunk{{Data: good101(all[:i+4], extra)}}
			}
			return nil
		}
		dd := *d
		dd.NetDial = func(network, addr string) (net.Conn, error) { return run.wconn, nil }
		var err error
		c, _, err = dd.Dial("ws://c02.example/x", nil)
		if err != nil {
			return nil
		}
		run.wconn.OnWrite = nil
		run.dialOffered = offer
	} else if viaUpgrade {
		w := newFakeRW(run.wconn, nil, 4096)
		u := &ws.Upgrader{EnableCompression: cfg.Comp}
		if cfg.Pool {
			u.WriteBufferPool = run.pool.Front(0)
		}
		req := validRequest(someKey)
		if cfg.Comp {
			req.Header["Sec-Websocket-Extensions"] = []string{"permessage-deflate"}
		}
		var err error
		c, err = u.Upgrade(w, req, nil)
		if err != nil {
			return nil
		}
		head = run.wconn.WrittenLen()
	} else {
		c = newConn(run.wconn, cfg, run.pool, 0)
	}
	run.w = NewWriter(c, cfg)
	run.w.RunProgram(prog)
	// terminating close by harness plumbing (WriteControl, see DESIGN 5)
	err := c.WriteControl(ws.CloseMessage, ws.FormatCloseMessage(1000, "bye"), time.Time{})
	run.w.Sent = append(run.w.Sent, Sent{Type: 8, Data: wire.MkClose(1000, "bye"), Step: len(prog), Err: err, Completed: err == nil})
	run.written = run.wconn.Written()[head:]
	return run
}

// ---------------------------------------------------------------- C01

func init() {
	core.Register(&core.Prop{
		ID:    "C01",
		Level: "exploration",
		Rule: "case = (endpoint config, write program, reader config, transport chunking, read program) drawn from the seeded PRNG; " +
			"distinct = hash of the full case descriptor; non-trivial = some data message spans >=2 frames on the wire, or is compressed, or has a size on a length-encoding boundary (125,126,65535,65536)",
		Variants: func(tier string) []string { return []string{"plain", "asan", "checkptr"} },
		Cases: func(tier, variant string) int {
			n := 12000
			if tier == "thorough" {
				n = 600000
			}
			if variant != "plain" {
				n /= 20
			}
			return n
		},
		Run:      runC01,
		Required: []string{"messages_delivered", "frames_on_wire"},
		Assumptions: []string{
			"connections are built by VerifNewConn (newConn + the two permessage-deflate constructors), exactly what Upgrade/Dial do after a handshake; a subset goes through the real Upgrader.Upgrade",
			"the harness never calls WritePreparedMessage while a NextWriter is open (out of contract)",
			"the terminating close is sent with WriteControl",
		},
	})
}

func runC01(ctx *core.Ctx, out *core.Out) {
	r := ctx.R
	if ctx.Idx%10 == 7 {
		c01Many(ctx, out)
		return
	}
	cfg, prog := genRT(r, ctx.Thorough())
	via := ctx.Idx%5 == 4
	if via && cfg.Server {
		cfg.WB = 4096 // the hijacked bufio.Writer's buffer is reused
		cfg, prog = regenFor(r, cfg, ctx.Thorough())
	}
	run := execWriteVia(cfg, prog, via)
	desc := rtCase{Cfg: cfg, Prog: progDesc(prog), Upgrade: via}
	if run == nil {
		out.Inconcl("set-up handshake through Upgrader.Upgrade / Dialer.Dial failed")
		out.Eval(core.J(desc), false)
		return
	}
	if via {
		out.Count("connections_built_by_upgrade_or_dial", 1)
	}

	fail := func(sig, what string, extra map[string]interface{}) {
		d := map[string]interface{}{"case": desc}
		for k, v := range extra {
			d[k] = v
		}
		out.Violate(sig, what, d)
	}

	// (1) every write call of a valid message was accepted
	for _, res := range run.w.Results {
		s := prog[res.Step]
		if res.Note != "" {
			fail("C01:api-note", res.Note, map[string]interface{}{"step": s.Desc()})
			return
		}
		for _, e := range res.Errs {
			if e != nil {
				sig := "C01:valid-write-refused"
				if (s.Kind == WCtlMsg || s.Kind == WCtlNext) && e.Error() == "websocket: invalid control frame" && len(s.payload) <= 125 && cfg.WB <= len(s.payload) {
					sig = "C01:control-message-larger-than-write-buffer-refused"
				}
				fail(sig, fmt.Sprintf("step %d %s returned %v", res.Step, s.Desc(), e), map[string]interface{}{"errors": errStrs(res.Errs)})
				return
			}
		}
	}

	// (2) the peer reads it back
	rcfg := Cfg{Server: !cfg.Server, RB: r.BufSize(), WB: r.BufSize(), Comp: cfg.Comp}
	style := r.Intn(xport.NChunkStyles)
	if len(run.written) > 300000 && (style == xport.ChunkByte || style == xport.ChunkSmallRandom || style == xport.ChunkWithEmpty) {
		style = xport.ChunkRandom
	}
	rmode := r.Intn(5) - 1
	desc.RCfg, desc.Chunk, desc.RMode = rcfg, style, rmode
	rconn := xport.New(xport.Rechunk(run.written, style, r))
	rc := newConn(rconn, rcfg, nil, 1)
	rd := &Reader{C: rc}
	rd.InstallRecordingHandlers()

	var expData []Sent
	var expPing, expPong []string
	for _, s := range run.w.Sent {
		switch s.Type {
		case 1, 2:
			expData = append(expData, s)
		case 9:
			expPing = append(expPing, string(s.Data))
		case 10:
			expPong = append(expPong, string(s.Data))
		}
	}

	frames, rest, derr := wire.Decode(run.written)
	out.Count("frames_on_wire", int64(len(frames)))
	nontriv := len(frames) > len(run.w.Sent)
	for _, s := range expData {
		if s.CompressedExpected || len(s.Data) == 125 || len(s.Data) == 126 || len(s.Data) == 65535 || len(s.Data) == 65536 {
			nontriv = true
		}
	}
	out.Eval(core.J(desc), nontriv)
	if derr != nil || len(rest) != 0 {
		// C02's business; C01 only needs the round trip.
		out.Count("wire_undecodable_by_reference", 1)
	}

	if rmode == 3 {
		// JoinMessages over the whole connection
		term := []string{"\x00|\n", "", "\n"}[r.Intn(3)]
		jr := ws.JoinMessages(rc, term)
		var got bytes.Buffer
		buf := make([]byte, r.Range(1, 5000))
		var jerr error
		for i := 0; ; i++ {
			n, e := jr.Read(buf)
			got.Write(buf[:n])
			if e != nil {
				jerr = e
				break
			}
			if i > 50_000_000 {
				jerr = fmt.Errorf("harness: join did not end")
				break
			}
		}
		var want bytes.Buffer
		for _, s := range expData {
			want.Write(s.Data)
			want.WriteString(term)
		}
		out.Count("messages_delivered", int64(len(expData)))
		if !bytes.Equal(got.Bytes(), want.Bytes()) {
			fail("C01:join-mismatch", fmt.Sprintf("JoinMessages delivered %d bytes, expected %d; first difference at %d", got.Len(), want.Len(), diffAt(got.Bytes(), want.Bytes())), nil)
			return
		}
		if !isCloseErr(jerr, 1000, "bye") {
			fail("C01:terminal-error", fmt.Sprintf("JoinMessages ended with %v, expected close 1000 bye", jerr), nil)
		}
		return
	}

	for i := 0; ; i++ {
		mode := rmode
		if mode < 0 {
			mode = r.Intn(2)
		}
		if mode == 2 {
			mode = RMsg
			if i < len(expData) && prog[expData[i].Step].Kind == WJSON {
				var v interface{}
				err := rc.ReadJSON(&v)
				if err != nil {
					rd.Err = err
					// distinguish terminal from decode failure
					fail("C01:readjson", fmt.Sprintf("ReadJSON of message %d failed: %v", i, err), nil)
					return
				}
				var want interface{}
				json.Unmarshal(expData[i].Data, &want)
				if !reflect.DeepEqual(v, want) {
					fail("C01:readjson-mismatch", fmt.Sprintf("ReadJSON of message %d decoded a different value", i), nil)
					return
				}
				rd.Got = append(rd.Got, Got{Type: 1, Data: expData[i].Data})
				continue
			}
		}
		if !rd.ReadOne(mode, r) {
			break
		}
		if len(rd.Got) > len(expData)+2 {
			break
		}
	}
	out.Count("messages_delivered", int64(len(rd.Got)))
	out.Count("control_handler_calls", int64(len(rd.Handlers)))

	n := len(rd.Got)
	if len(expData) < n {
		n = len(expData)
	}
	for i := 0; i < n; i++ {
		g, e := rd.Got[i], expData[i]
		if g.ReadErr != nil {
			fail("C01:read-error", fmt.Sprintf("message %d: read failed with %v after %d of %d bytes", i, g.ReadErr, len(g.Data), len(e.Data)), nil)
			return
		}
		if g.Type != e.Type || !bytes.Equal(g.Data, e.Data) {
			fail("C01:payload-mismatch", fmt.Sprintf("message %d (step %s): delivered type %d len %d, sent type %d len %d, first difference at byte %d",
				i, prog[e.Step].Desc(), g.Type, len(g.Data), e.Type, len(e.Data), diffAt(g.Data, e.Data)), map[string]interface{}{"frames": framesDesc(frames, 12)})
			return
		}
	}
	if len(rd.Got) != len(expData) {
		fail("C01:count-mismatch", fmt.Sprintf("delivered %d data messages, sent %d; reader ended with %v", len(rd.Got), len(expData), rd.Err), map[string]interface{}{"frames": framesDesc(frames, 12)})
		return
	}
	if !isCloseErr(rd.Err, 1000, "bye") {
		fail("C01:terminal-error", fmt.Sprintf("reader ended with %v, expected close 1000 bye", rd.Err), nil)
		return
	}
	var gotPing, gotPong []string
	for _, h := range rd.Handlers {
		switch h.Kind {
		case 9:
			gotPing = append(gotPing, h.Payload)
		case 10:
			gotPong = append(gotPong, h.Payload)
		}
	}
	if !reflect.DeepEqual(gotPing, expPing) || !reflect.DeepEqual(gotPong, expPong) {
		fail("C01:control-mismatch", fmt.Sprintf("pings/pongs seen by the peer's handlers differ from those sent (%d/%d seen, %d/%d sent)", len(gotPing), len(gotPong), len(expPing), len(expPong)), nil)
		return
	}
	if ctx.Idx%997 == 0 {
		out.Sample(map[string]interface{}{"case": desc, "frames": framesDesc(frames, 10), "delivered": len(rd.Got)})
	}
}

// ---------------------------------------------------------------- C02

func init() {
	core.Register(&core.Prop{
		ID:    "C02",
		Level: "exploration",
		Rule: "case = (endpoint config, write program) drawn from the seeded PRNG; the transport write log is decoded by the independent decoder; every tenth case is a deadline history instead: a three-part message during which the write deadline in force expires (before a middle part, before Close, or before the implicit close by the next message) and is renewed, over a transport that does not enforce deadlines; " +
			"distinct = hash of the case descriptor; non-trivial = the log holds more frames than API messages (fragmentation) or a compressed message or a boundary-sized message",
		Variants: core.PlainOnly,
		Cases: func(tier, variant string) int {
			if tier == "thorough" {
				return 600000
			}
			return 14000
		},
		Run:      runC02,
		Required: []string{"frames_decoded", "mask_keys_checked", "oversize_control_payloads_streamed_into_a_writer", "expired_deadline_histories"},
		Assumptions: []string{
			"the mask-key source is observed through VerifMaskRand/VerifSetMaskRand: identity with crypto/rand.Reader is asserted once, then a forwarding tap records every byte drawn; the quality of crypto/rand itself is trusted",
			"compressed payloads are inflated with the standard library inflater (not library code)",
		},
	})
}

func runC02(ctx *core.Ctx, out *core.Out) {
	tp, ident := installTap()
	if !ident {
		out.Violate("C02:mask-source-not-crypto-rand", fmt.Sprintf("the package's mask key source is %T, not crypto/rand.Reader", origMaskRand), nil)
		return
	}
	r := ctx.R
	if ctx.Idx%10 == 7 {
		c02ExpiredDeadline(ctx, out)
		return
	}
	rtInvalid = true // C02 only: invalid requests must leave no trace on the wire
	cfg, prog := genRT(r, ctx.Thorough())
	via := ctx.Idx%5 == 4
	if via && cfg.Server {
		cfg.WB = 4096
		cfg, prog = regenFor(r, cfg, ctx.Thorough())
	}
	rtInvalid = false
	tp.Reset()
	run := execWriteVia(cfg, prog, via)
	if run != nil && run.w != nil {
		out.Count("oversize_control_payloads_streamed_into_a_writer", int64(run.w.OversizeStreamed))
	}
	drawn := tp.Drawn()
	desc := rtCase{Cfg: cfg, Prog: progDesc(prog), Upgrade: via}
	if run == nil {
		out.Inconcl("set-up handshake through Upgrader.Upgrade / Dialer.Dial failed")
		out.Eval(core.J(desc), false)
		return
	}
	if via {
		out.Count("connections_built_by_upgrade_or_dial", 1)
	}
	judgeWire(out, "C02", desc, cfg, prog, run, drawn, ctx.Idx%997 == 0)
}

// judgeWire applies the C02 oracle to one executed write program.
func judgeWire(out *core.Out, id string, desc interface{}, cfg Cfg, prog []WStep, run *rtRun, drawn []byte, sample bool) bool {
	fail := func(sig, what string, extra map[string]interface{}) bool {
		d := map[string]interface{}{"case": desc}
		for k, v := range extra {
			d[k] = v
		}
		out.Violate(sig, what, d)
		return false
	}
	frames, rest, derr := wire.Decode(run.written)
	out.Count("frames_decoded", int64(len(frames)))
	nontriv := len(frames) > len(run.w.Sent)
	for _, s := range run.w.Sent {
		if s.CompressedExpected || len(s.Data) == 125 || len(s.Data) == 126 || len(s.Data) == 65535 || len(s.Data) == 65536 {
			nontriv = true
		}
	}
	out.Eval(core.J(desc), nontriv)
	if derr != nil {
		return fail(id+":undecodable", fmt.Sprintf("write log does not decode: %v after %d frames", derr, len(frames)), map[string]interface{}{"frames": framesDesc(frames, 12)})
	}
	if len(rest) != 0 {
		return fail(id+":trailing-partial-frame", fmt.Sprintf("write log ends with %d bytes that are not a whole frame", len(rest)), map[string]interface{}{"frames": framesDesc(frames, 12), "tail": core.Trunc(rest, 32)})
	}
	msgs, open, v := wire.Validate(frames, !cfg.Server, cfg.Comp)
	if v != nil {
		return fail(id+":"+v.Kind, "ill-formed stream: "+v.Error(), map[string]interface{}{"frames": framesDesc(frames, 16)})
	}
	if open != nil {
		return fail(id+":unfinished-message", "stream ends inside a data message", map[string]interface{}{"frames": framesDesc(frames, 16)})
	}
	// every successful API message appears once, in order; failed ones not at all
	var expData, expCtl []Sent
	for _, s := range run.w.Sent {
		if !s.Completed {
			continue
		}
		if s.Type == 1 || s.Type == 2 {
			expData = append(expData, s)
		} else {
			expCtl = append(expCtl, s)
		}
	}
	var gotData, gotCtl []wire.Msg
	for _, m := range msgs {
		if m.Op == 1 || m.Op == 2 {
			gotData = append(gotData, m)
		} else {
			gotCtl = append(gotCtl, m)
		}
	}
	if len(gotData) != len(expData) || len(gotCtl) != len(expCtl) {
		return fail(id+":message-count", fmt.Sprintf("wire has %d data + %d control messages, API sent %d + %d", len(gotData), len(gotCtl), len(expData), len(expCtl)), map[string]interface{}{"frames": framesDesc(frames, 16)})
	}
	for i, m := range gotData {
		e := expData[i]
		if m.Op != e.Type || !bytes.Equal(m.Data, e.Data) {
			return fail(id+":payload-mismatch", fmt.Sprintf("data message %d (%s): wire decodes to type %d len %d, application wrote type %d len %d, first difference at %d (compressed=%v)",
				i, prog[e.Step].Desc(), m.Op, len(m.Data), e.Type, len(e.Data), diffAt(m.Data, e.Data), m.Compressed), map[string]interface{}{"frames": framesDesc(frames, 16)})
		}
		if m.Compressed {
			out.Count("compressed_messages", 1)
		}
		if m.Compressed != e.CompressedExpected {
			out.Count("compression_state_differs_from_setting", 1)
		}
		if m.NFrames > 1 {
			out.Count("fragmented_messages", 1)
		}
	}
	for i, m := range gotCtl {
		e := expCtl[i]
		if m.Op != e.Type || !bytes.Equal(m.Data, e.Data) {
			return fail(id+":control-mismatch", fmt.Sprintf("control message %d: wire has op %d %x, API sent type %d %x", i, m.Op, m.Data, e.Type, e.Data), nil)
		}
	}
	// relative order of control frames and data messages (call order)
	di := 0
	sentDataBefore := func(step int) (completed, begun int) {
		for _, s := range run.w.Sent {
			if !(s.Type == 1 || s.Type == 2) || !s.Completed {
				continue
			}
			if s.Step < step {
				begun++
				p := prog[s.Step]
				if !(p.Kind == WNext && !p.Explicit) {
					completed++
				} else {
					// left open: completed by the next message-level step before `step`?
					for j := s.Step + 1; j < step; j++ {
						k := prog[j].Kind
						if k == WMsg || k == WNext || k == WJSON || k == WPrepared || k == WCtlMsg || k == WCtlNext || (k == WInvalid && prog[j].Invalid != 6 && prog[j].Invalid != 7) {
							completed++
							break
						}
					}
				}
			}
		}
		return
	}
	_ = di
	for i, m := range gotCtl {
		e := expCtl[i]
		completed, begun := sentDataBefore(e.Step)
		if completed > 0 && gotData[completed-1].Last > m.First {
			return fail(id+":control-order", fmt.Sprintf("control message %d (step %d) is on the wire before the end of data message %d that had completed earlier", i, e.Step, completed-1), map[string]interface{}{"frames": framesDesc(frames, 16)})
		}
		if begun < len(gotData) && gotData[begun].First < m.First {
			return fail(id+":control-order", fmt.Sprintf("control message %d (step %d) is on the wire after the start of data message %d that was begun later", i, e.Step, begun), map[string]interface{}{"frames": framesDesc(frames, 16)})
		}
	}
	// mask keys: each key on the wire is a distinct 4-byte group of the draw stream, in order
	if !cfg.Server && drawn != nil {
		gi := 0
		ngroups := len(drawn) / 4
		for fi, f := range frames {
			found := false
			for gi < ngroups {
				g := drawn[gi*4 : gi*4+4]
				gi++
				if bytes.Equal(g, f.Key[:]) {
					found = true
					break
				}
			}
			out.Count("mask_keys_checked", 1)
			if !found {
				return fail(id+":mask-key-not-fresh-from-crypto-rand", fmt.Sprintf("frame %d carries mask key %x which is not a fresh 4-byte draw from the random source (%d draws seen)", fi, f.Key, ngroups),
					map[string]interface{}{"frames": framesDesc(frames, 16), "draws": core.Trunc(drawn, 64)})
			}
		}
	} else if cfg.Server {
		out.Count("mask_keys_checked", 0)
		if len(drawn) > 0 {
			out.Count("server_drew_mask_bytes", int64(len(drawn)))
		}
	}
	if sample {
		out.Sample(map[string]interface{}{"case": desc, "frames": framesDesc(frames, 10), "messages": len(msgs)})
	}
	return true
}

// c01Many: several connections run their write programs at the same time in one
// process (they share the package-level compressor/decompressor pools and the
// mask-key source), then several readers read the results back at the same
// time. Every connection's messages must still arrive intact.
func c01Many(ctx *core.Ctx, out *core.Out) {
	r := ctx.R
	n := r.Range(3, 8)
	level := r.Range(-2, 9)
	type one struct {
		cfg  Cfg
		prog []WStep
		run  *rtRun
		got  []Got
		err  error
	}
	conns := make([]*one, n)
	var descs []interface{}
	for i := range conns {
		rr := gen.For(ctx.Seed, fmt.Sprintf("c01many/%d", i), ctx.Idx)
		cfg := Cfg{Server: rr.Bool(), RB: rr.BufSize(), WB: []int{64, 256, 1024, 4096}[rr.Intn(4)], Pool: false, Comp: rr.Chance(3, 4)}
		prog := genProgram(rr, cfg, ProgOpts{MaxMsgs: 6, MaxSize: 20000, NoCtlViaMsg: true})
		// all compressing connections use the same level so that they share one pool
		prog = append([]WStep{{Kind: WSetLevel, Level: level}}, prog...)
		conns[i] = &one{cfg: cfg, prog: prog}
		descs = append(descs, map[string]interface{}{"cfg": cfg, "prog": progDesc(prog)})
	}
	var wg sync.WaitGroup
	start := make(chan struct{})
	for _, c := range conns {
		wg.Add(1)
		go func(c *one) {
			defer wg.Done()
			<-start
			c.run = execWrite(c.cfg, c.prog)
		}(c)
	}
	close(start)
	wg.Wait()
	// concurrent read-back
	start2 := make(chan struct{})
	for i, c := range conns {
		wg.Add(1)
		go func(i int, c *one) {
			defer wg.Done()
			<-start2
			rr := gen.For(ctx.Seed, fmt.Sprintf("c01many/r%d", i), ctx.Idx)
			rconn := xport.New(xport.Rechunk(c.run.written, xport.ChunkRandom, rr))
			rc := newConn(rconn, Cfg{Server: !c.cfg.Server, RB: rr.BufSize(), WB: 256, Comp: c.cfg.Comp}, nil, 1)
			rd := &Reader{C: rc}
			rd.ReadAll(rr, -1)
			c.got, c.err = rd.Got, rd.Err
		}(i, c)
	}
	close(start2)
	wg.Wait()
	out.Count("concurrent_connection_groups", 1)
	out.Eval(core.J(descs), true)
	for i, c := range conns {
		d := map[string]interface{}{"connections": n, "connection": i, "level": level, "case": descs[i]}
		for _, res := range c.run.w.Results {
			for _, e := range res.Errs {
				if e != nil {
					out.Violate("C01:valid-write-refused-with-concurrent-connections", fmt.Sprintf("connection %d of %d running concurrently: step %d returned %v", i, n, res.Step, e), d)
					return
				}
			}
		}
		var exp []Sent
		for _, s := range c.run.w.Sent {
			if s.Type == 1 || s.Type == 2 {
				exp = append(exp, s)
			}
		}
		out.Count("messages_delivered", int64(len(c.got)))
		frames, _, _ := wire.Decode(c.run.written)
		out.Count("frames_on_wire", int64(len(frames)))
		if len(c.got) != len(exp) {
			out.Violate("C01:count-mismatch-with-concurrent-connections", fmt.Sprintf("connection %d of %d running concurrently: delivered %d messages, sent %d; reader ended with %v", i, n, len(c.got), len(exp), c.err), d)
			return
		}
		for k, g := range c.got {
			if g.ReadErr != nil || g.Type != exp[k].Type || !bytes.Equal(g.Data, exp[k].Data) {
				out.Violate("C01:payload-mismatch-with-concurrent-connections", fmt.Sprintf("connection %d of %d running concurrently: message %d arrived altered (len %d vs %d, err %v)", i, n, k, len(g.Data), len(exp[k].Data), g.ReadErr), d)
				return
			}
		}
	}
}

// c02ExpiredDeadline: the write deadline in force changes between the frames of one message -
// it expires (an instant long past is set) before a middle part, before the final Close, or
// while the writer is left open for the implicit close, and a fresh one is set afterwards. The
// transport neither implements nor enforces deadlines, so nothing fails on its side. Whatever
// the library makes of the expired deadline, what reaches the wire must stay a well-formed
// stream whose complete messages are exactly what the application wrote.
func c02ExpiredDeadline(ctx *core.Ctx, out *core.Out) {
	r := ctx.R
	cfg := Cfg{Server: r.Bool(), RB: 256, WB: []int{64, 200, 1024, 4096}[r.Intn(4)], Comp: r.Bool()}
	nc := xport.New(nil)
	c := newConn(nc, cfg, nil, 0)
	if cfg.Comp {
		c.EnableWriteCompression(r.Bool())
	}
	far := func(i int) time.Time { return time.Unix(4000000000, 0).Add(time.Duration(i) * time.Hour) }
	past := time.Unix(1000000, 0)
	where := r.Intn(3)
	typ := r.Range(1, 2)
	var parts [][]byte
	var whole []byte
	for i := 0; i < 3; i++ {
		p := r.Bytes(r.Range(cfg.WB, 3*cfg.WB))
		parts = append(parts, p)
		whole = append(whole, p...)
	}
	small := append([]byte("second:"), r.Bytes(r.Range(0, 40))...)
	last := append([]byte("third:"), r.Bytes(r.Range(0, 300))...)
	var calls []string
	failed := -1
	note := func(name string, err error) {
		calls = append(calls, name+" -> "+errStr(err))
		if err != nil && failed < 0 {
			failed = len(calls) - 1
		}
	}
	c.SetWriteDeadline(far(1))
	w, err := c.NextWriter(typ)
	note("NextWriter", err)
	if err != nil {
		out.Violate("C02:setup", "NextWriter on a fresh connection failed: "+err.Error(), nil)
		return
	}
	_, err = w.Write(parts[0])
	note("Write part 0", err)
	if where == 0 {
		c.SetWriteDeadline(past)
	}
	_, err = w.Write(parts[1])
	note("Write part 1", err)
	if where == 0 {
		c.SetWriteDeadline(far(2))
	}
	_, err = w.Write(parts[2])
	note("Write part 2", err)
	expect := [][]byte{whole}
	switch where {
	case 1:
		c.SetWriteDeadline(past)
		note("Close", w.Close())
	case 2:
		c.SetWriteDeadline(past)
		note("WriteMessage second (closes the open writer)", c.WriteMessage(2, small))
		expect = append(expect, small)
	default:
		note("Close", w.Close())
	}
	c.SetWriteDeadline(far(3))
	note("WriteMessage third", c.WriteMessage(1, last))
	expect = append(expect, last)
	note("WriteControl ping", c.WriteControl(9, []byte("p"), far(4)))
	out.Count("expired_deadline_histories", 1)
	desc := map[string]interface{}{"cfg": cfg, "expired_deadline_in_force": []string{"during the second of three Writes", "during Close", "while the next message closes the open writer"}[where], "calls": calls}
	out.Eval(fmt.Sprintf("expired|%v|%d|%d", cfg, where, typ), true)
	frames, rest, derr := wire.Decode(nc.Written())
	out.Count("frames_decoded", int64(len(frames)))
	if derr != nil || len(rest) != 0 {
		out.Violate("C02:undecodable", fmt.Sprintf("write log does not decode (err=%v, %d trailing bytes)", derr, len(rest)), desc)
		return
	}
	msgs, open, v := wire.Validate(frames, !cfg.Server, cfg.Comp)
	desc["frames"] = framesDesc(frames, 16)
	if v != nil {
		out.Violate("C02:"+v.Kind, "ill-formed stream after a write deadline expired between frames: "+v.Error(), desc)
		return
	}
	var data []wire.Msg
	for _, m := range msgs {
		if m.Op == 1 || m.Op == 2 {
			data = append(data, m)
		}
	}
	// complete data messages on the wire are a prefix-preserving subsequence of what was written
	ei := 0
	for i, m := range data {
		for ei < len(expect) && !bytes.Equal(m.Data, expect[ei]) {
			ei++
		}
		if ei == len(expect) {
			out.Violate("C02:payload-mismatch", fmt.Sprintf("complete data message %d on the wire (%d bytes) is none of the messages the application wrote (a frame is missing or misplaced)", i, len(m.Data)), desc)
			return
		}
		ei++
	}
	if failed < 0 && (len(data) != len(expect) || open != nil) {
		out.Violate("C02:message-count", fmt.Sprintf("every call succeeded but the wire has %d complete data messages, want %d (unfinished=%v)", len(data), len(expect), open != nil), desc)
		return
	}
}
