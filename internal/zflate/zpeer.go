package zflate

import (
	"bufio"
	"encoding/hex"
	"errors"
	"fmt"
	"io"
	"os"
	"os/exec"
	"path/filepath"
	"strings"
	"sync"
)

// Peer is a python3 zlib process (tools/zpeer.py): a foreign, conformant
// deflater and inflater.
type Peer struct {
	mu  sync.Mutex
	cmd *exec.Cmd
	in  io.WriteCloser
	out *bufio.Reader
}

var (
	peerOnce sync.Once
	peer     *Peer
	peerErr  error
)

// GetPeer starts (once per process) the zlib peer. It returns an error when
// python3 is not available.
func GetPeer() (*Peer, error) {
	peerOnce.Do(func() {
		root := os.Getenv("VERIF_ROOT")
		if root == "" {
			root = "/verif"
		}
		script := filepath.Join(root, "tools", "zpeer.py")
		py := "python3"
		for _, cand := range []string{"/usr/bin/python3", "/usr/local/bin/python3"} {
			if _, err := os.Stat(cand); err == nil {
				py = cand
				break
			}
		}
		cmd := exec.Command(py, script)
		in, err := cmd.StdinPipe()
		if err != nil {
			peerErr = err
			return
		}
		out, err := cmd.StdoutPipe()
		if err != nil {
			peerErr = err
			return
		}
		cmd.Stderr = os.Stderr
		if err := cmd.Start(); err != nil {
			peerErr = err
			return
		}
		p := &Peer{cmd: cmd, in: in, out: bufio.NewReaderSize(out, 1<<20)}
		// smoke test
		if got, err := p.Inflate([]byte{0x00}); err != nil || len(got) != 0 {
			peerErr = fmt.Errorf("zpeer smoke test failed: %v", err)
			return
		}
		peer = p
	})
	return peer, peerErr
}

func (p *Peer) call(req string) ([]byte, error) {
	p.mu.Lock()
	defer p.mu.Unlock()
	if _, err := io.WriteString(p.in, req+"\n"); err != nil {
		return nil, err
	}
	line, err := p.out.ReadString('\n')
	if err != nil {
		return nil, err
	}
	line = strings.TrimRight(line, "\n")
	if strings.HasPrefix(line, "OK") {
		return hex.DecodeString(strings.TrimSpace(line[2:]))
	}
	return nil, errors.New(line)
}

// Deflate asks zlib for a permessage-deflate payload of data.
func (p *Peer) Deflate(level, wbits, memlevel, strategy, mode int, data []byte) ([]byte, error) {
	return p.call(fmt.Sprintf("D %d %d %d %d %d %s", level, wbits, memlevel, strategy, mode, hex.EncodeToString(data)))
}

// Inflate asks zlib to inflate a permessage-deflate payload.
func (p *Peer) Inflate(payload []byte) ([]byte, error) {
	return p.call("I " + hex.EncodeToString(payload))
}
