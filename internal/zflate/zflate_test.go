package zflate

import (
	"bytes"
	"testing"

	"verif/internal/gen"
	"verif/internal/wire"
)

func TestSelf(t *testing.T) {
	bad := 0
	var blocks [3]int
	for i := 0; i < 20000; i++ {
		r := gen.For(1, "zflate", i)
		n := r.Range(0, 3000)
		if r.Chance(1, 20) {
			n = r.Range(30000, 90000)
		}
		data := r.Payload(r.Intn(gen.NPayloadClasses), n)
		o := Options{Final: r.Chance(1, 4), MidFlush: r.Chance(1, 3)}
		z, info := Message(data, r, o)
		for k := range blocks {
			blocks[k] += info.Blocks[k]
		}
		got, err := wire.Inflate(z)
		if err != nil || !bytes.Equal(got, data) {
			bad++
			if bad < 5 {
				t.Errorf("case %d n=%d opts=%+v info=%+v: err=%v len(got)=%d", i, n, o, info, err, len(got))
			}
		}
	}
	t.Logf("bad=%d blocks=%v", bad, blocks)
}

func TestPeer(t *testing.T) {
	p, err := GetPeer()
	if err != nil {
		t.Skip(err)
	}
	bad := 0
	for i := 0; i < 3000; i++ {
		r := gen.For(2, "zpeer", i)
		data := r.Payload(r.Intn(gen.NPayloadClasses), r.Range(0, 4000))
		z, _ := Message(data, r, Options{Final: r.Chance(1, 4), MidFlush: r.Chance(1, 3)})
		got, err := p.Inflate(z)
		if err != nil || !bytes.Equal(got, data) {
			bad++
			if bad < 5 {
				t.Errorf("own->zlib case %d: %v", i, err)
			}
		}
		strategy := r.Intn(5)
		zz, err := p.Deflate(r.Range(0, 9), r.Range(9, 15), r.Range(1, 9), strategy, r.Intn(4), data)
		if err != nil {
			t.Fatalf("deflate: %v", err)
		}
		got, err = wire.Inflate(zz)
		if err != nil || !bytes.Equal(got, data) {
			bad++
			if bad < 5 {
				t.Errorf("zlib->go case %d: %v", i, err)
			}
		}
	}
	t.Logf("bad=%d", bad)
}
