// Package zflate is a small DEFLATE (RFC 1951) encoder written for the
// verification harness. It shares nothing with compress/flate's writer and is
// deliberately "odd": block types, block boundaries, match choices and the use
// of run-length codes in the dynamic header are all driven by a PRNG so that
// the library's inflate path sees streams no single deflater would produce.
package zflate

import (
	"sort"
)

// Rand is the PRNG interface used (gen.R satisfies it).
type Rand interface {
	Intn(int) int
	Range(int, int) int
	Bool() bool
}

type bitw struct {
	out  []byte
	acc  uint64
	nacc uint
}

func (w *bitw) bits(v uint32, n uint) {
	w.acc |= uint64(v) << w.nacc
	w.nacc += n
	for w.nacc >= 8 {
		w.out = append(w.out, byte(w.acc))
		w.acc >>= 8
		w.nacc -= 8
	}
}

// huff writes a Huffman code (MSB-first per RFC 1951 3.1.1).
func (w *bitw) huff(code uint32, n uint) {
	var rev uint32
	for i := uint(0); i < n; i++ {
		rev = rev<<1 | (code>>i)&1
	}
	w.bits(rev, n)
}

func (w *bitw) align() {
	if w.nacc > 0 {
		w.out = append(w.out, byte(w.acc))
		w.acc, w.nacc = 0, 0
	}
}

type token struct {
	lit  byte
	len  int // 0 => literal
	dist int
}

var lenBase = [...]int{3, 4, 5, 6, 7, 8, 9, 10, 11, 13, 15, 17, 19, 23, 27, 31, 35, 43, 51, 59, 67, 83, 99, 115, 131, 163, 195, 227, 258}
var lenExtra = [...]uint{0, 0, 0, 0, 0, 0, 0, 0, 1, 1, 1, 1, 2, 2, 2, 2, 3, 3, 3, 3, 4, 4, 4, 4, 5, 5, 5, 5, 0}
var distBase = [...]int{1, 2, 3, 4, 5, 7, 9, 13, 17, 25, 33, 49, 65, 97, 129, 193, 257, 385, 513, 769, 1025, 1537, 2049, 3073, 4097, 6145, 8193, 12289, 16385, 24577}
var distExtra = [...]uint{0, 0, 0, 0, 1, 1, 2, 2, 3, 3, 4, 4, 5, 5, 6, 6, 7, 7, 8, 8, 9, 9, 10, 10, 11, 11, 12, 12, 13, 13}

func lenSym(l int) (sym int, extra uint32, nbits uint) {
	for i := len(lenBase) - 1; i >= 0; i-- {
		if l >= lenBase[i] {
			return 257 + i, uint32(l - lenBase[i]), lenExtra[i]
		}
	}
	panic("zflate: bad length")
}

func distSym(d int) (sym int, extra uint32, nbits uint) {
	for i := len(distBase) - 1; i >= 0; i-- {
		if d >= distBase[i] {
			return i, uint32(d - distBase[i]), distExtra[i]
		}
	}
	panic("zflate: bad distance")
}

// tokenize runs a simple LZ77 matcher whose choices are perturbed by r.
// window limits match distances (<= 32768).
func tokenize(data []byte, r Rand, window int, useMatches bool) []token {
	var toks []token
	if !useMatches {
		for _, b := range data {
			toks = append(toks, token{lit: b})
		}
		return toks
	}
	head := map[uint32]int{}
	prev := make([]int, len(data))
	key := func(i int) uint32 { return uint32(data[i]) | uint32(data[i+1])<<8 | uint32(data[i+2])<<16 }
	insert := func(i int) {
		if i+2 < len(data) {
			k := key(i)
			if p, ok := head[k]; ok {
				prev[i] = p
			} else {
				prev[i] = -1
			}
			head[k] = i
		}
	}
	maxChain := []int{1, 4, 32}[r.Intn(3)]
	skipPct := []int{0, 0, 10, 50}[r.Intn(4)]
	i := 0
	for i < len(data) {
		bestLen, bestDist := 0, 0
		if i+2 < len(data) && r.Intn(100) >= skipPct {
			if p, ok := head[key(i)]; ok {
				for c := 0; p >= 0 && c < maxChain; c++ {
					d := i - p
					if d > window {
						break
					}
					l := 0
					for i+l < len(data) && l < 258 && data[p+l] == data[i+l] {
						l++
					}
					if l > bestLen {
						bestLen, bestDist = l, d
					}
					p = prev[p]
				}
			}
		}
		if bestLen >= 3 {
			// sometimes shorten the match
			if bestLen > 3 && r.Intn(8) == 0 {
				bestLen = r.Range(3, bestLen)
			}
			toks = append(toks, token{len: bestLen, dist: bestDist})
			for k := 0; k < bestLen; k++ {
				insert(i + k)
			}
			i += bestLen
		} else {
			toks = append(toks, token{lit: data[i]})
			insert(i)
			i++
		}
	}
	return toks
}

// codeLengths builds length-limited Huffman code lengths for freq.
func codeLengths(freq []int, maxBits int) []int {
	n := len(freq)
	lens := make([]int, n)
	type node struct {
		w           int
		left, right int // indices into nodes, -1 for leaf
		sym         int
	}
	f := append([]int(nil), freq...)
	for {
		var nodes []node
		var live []int
		for s, w := range f {
			if w > 0 {
				nodes = append(nodes, node{w: w, left: -1, right: -1, sym: s})
				live = append(live, len(nodes)-1)
			}
		}
		if len(live) == 0 {
			return lens
		}
		if len(live) == 1 {
			lens[nodes[live[0]].sym] = 1
			return lens
		}
		for len(live) > 1 {
			sort.SliceStable(live, func(a, b int) bool { return nodes[live[a]].w < nodes[live[b]].w })
			a, b := live[0], live[1]
			nodes = append(nodes, node{w: nodes[a].w + nodes[b].w, left: a, right: b, sym: -1})
			live = append([]int{len(nodes) - 1}, live[2:]...)
		}
		for i := range lens {
			lens[i] = 0
		}
		max := 0
		var walk func(i, d int)
		walk = func(i, d int) {
			if nodes[i].left < 0 {
				lens[nodes[i].sym] = d
				if d > max {
					max = d
				}
				return
			}
			walk(nodes[i].left, d+1)
			walk(nodes[i].right, d+1)
		}
		walk(live[0], 0)
		if max <= maxBits {
			return lens
		}
		// flatten the distribution and retry
		for s := range f {
			if f[s] > 0 {
				f[s] = f[s]/2 + 1
			}
		}
	}
}

// canon assigns canonical codes (RFC 1951 3.2.2).
func canon(lens []int) []uint32 {
	maxb := 0
	for _, l := range lens {
		if l > maxb {
			maxb = l
		}
	}
	blCount := make([]int, maxb+2)
	for _, l := range lens {
		if l > 0 {
			blCount[l]++
		}
	}
	next := make([]uint32, maxb+2)
	code := uint32(0)
	for b := 1; b <= maxb; b++ {
		code = (code + uint32(blCount[b-1])) << 1
		next[b] = code
	}
	codes := make([]uint32, len(lens))
	for s, l := range lens {
		if l > 0 {
			codes[s] = next[l]
			next[l]++
		}
	}
	return codes
}

var fixedLitLens, fixedDistLens []int

func init() {
	fixedLitLens = make([]int, 288)
	for i := range fixedLitLens {
		switch {
		case i < 144:
			fixedLitLens[i] = 8
		case i < 256:
			fixedLitLens[i] = 9
		case i < 280:
			fixedLitLens[i] = 7
		default:
			fixedLitLens[i] = 8
		}
	}
	fixedDistLens = make([]int, 30)
	for i := range fixedDistLens {
		fixedDistLens[i] = 5
	}
}

var clOrder = [...]int{16, 17, 18, 0, 8, 7, 9, 6, 10, 5, 11, 4, 12, 3, 13, 2, 14, 1, 15}

func writeTokens(w *bitw, toks []token, ll []int, lc []uint32, dl []int, dc []uint32) {
	for _, t := range toks {
		if t.len == 0 {
			w.huff(lc[t.lit], uint(ll[t.lit]))
			continue
		}
		s, e, n := lenSym(t.len)
		w.huff(lc[s], uint(ll[s]))
		if n > 0 {
			w.bits(e, n)
		}
		ds, de, dn := distSym(t.dist)
		w.huff(dc[ds], uint(dl[ds]))
		if dn > 0 {
			w.bits(de, dn)
		}
	}
	w.huff(lc[256], uint(ll[256]))
}

func expand(toks []token) []byte {
	var out []byte
	for _, t := range toks {
		if t.len == 0 {
			out = append(out, t.lit)
		} else {
			for k := 0; k < t.len; k++ {
				out = append(out, out[len(out)-t.dist])
			}
		}
	}
	return out
}

func writeDynamic(w *bitw, toks []token, r Rand, final bool) {
	lf := make([]int, 286)
	df := make([]int, 30)
	lf[256] = 1
	for _, t := range toks {
		if t.len == 0 {
			lf[t.lit]++
		} else {
			s, _, _ := lenSym(t.len)
			lf[s]++
			d, _, _ := distSym(t.dist)
			df[d]++
		}
	}
	ll := codeLengths(lf, 15)
	dl := codeLengths(df, 15)
	nd := 0
	for _, l := range dl {
		if l > 0 {
			nd++
		}
	}
	if nd == 0 {
		dl[0] = 1 // a single unused distance code of one bit
	}
	hlit := 286
	for hlit > 257 && ll[hlit-1] == 0 {
		hlit--
	}
	hdist := 30
	for hdist > 1 && dl[hdist-1] == 0 {
		hdist--
	}
	// sometimes keep trailing zero lengths (legal, unusual)
	if r.Intn(4) == 0 {
		hlit = r.Range(hlit, 286)
		hdist = r.Range(hdist, 30)
	}
	all := append(append([]int(nil), ll[:hlit]...), dl[:hdist]...)
	// run-length encode
	type cl struct {
		sym   int
		extra uint32
		nbits uint
	}
	var seq []cl
	useRLE := r.Intn(4) != 0
	for i := 0; i < len(all); {
		v := all[i]
		run := 1
		for i+run < len(all) && all[i+run] == v {
			run++
		}
		if !useRLE {
			run = 1
		}
		switch {
		case v == 0 && run >= 11:
			n := run
			if n > 138 {
				n = 138
			}
			seq = append(seq, cl{18, uint32(n - 11), 7})
			i += n
		case v == 0 && run >= 3:
			seq = append(seq, cl{17, uint32(run - 3), 3})
			i += run
		case v != 0 && run >= 4:
			seq = append(seq, cl{v, 0, 0})
			n := run - 1
			if n > 6 {
				n = 6
			}
			seq = append(seq, cl{16, uint32(n - 3), 2})
			i += 1 + n
		default:
			seq = append(seq, cl{v, 0, 0})
			i++
		}
	}
	cf := make([]int, 19)
	for _, c := range seq {
		cf[c.sym]++
	}
	cll := codeLengths(cf, 7)
	clc := canon(cll)
	hclen := 19
	for hclen > 4 && cll[clOrder[hclen-1]] == 0 {
		hclen--
	}
	fb := uint32(0)
	if final {
		fb = 1
	}
	w.bits(fb, 1)
	w.bits(2, 2)
	w.bits(uint32(hlit-257), 5)
	w.bits(uint32(hdist-1), 5)
	w.bits(uint32(hclen-4), 4)
	for i := 0; i < hclen; i++ {
		w.bits(uint32(cll[clOrder[i]]), 3)
	}
	for _, c := range seq {
		w.huff(clc[c.sym], uint(cll[c.sym]))
		if c.nbits > 0 {
			w.bits(c.extra, c.nbits)
		}
	}
	writeTokens(w, toks, ll, canon(ll), dl, canon(dl))
}

func writeFixed(w *bitw, toks []token, final bool) {
	fb := uint32(0)
	if final {
		fb = 1
	}
	w.bits(fb, 1)
	w.bits(1, 2)
	writeTokens(w, toks, fixedLitLens, canon(fixedLitLens), fixedDistLens, canon(fixedDistLens))
}

func writeStored(w *bitw, data []byte, final bool) {
	for first := true; first || len(data) > 0; first = false {
		n := len(data)
		if n > 65535 {
			n = 65535
		}
		fb := uint32(0)
		if final && n == len(data) {
			fb = 1
		}
		w.bits(fb, 1)
		w.bits(0, 2)
		w.align()
		w.out = append(w.out, byte(n), byte(n>>8), byte(^n), byte(^n>>8))
		w.out = append(w.out, data[:n]...)
		data = data[n:]
	}
}

// Options selects the shape of the stream.
type Options struct {
	// Final: the last data block carries BFINAL=1 and is followed by the empty
	// non-final stored block of RFC 7692 7.2.3.4.
	Final bool
	// MidFlush inserts empty stored blocks (sync flush points) between blocks.
	MidFlush bool
}

// Info reports what the encoder did.
type Info struct {
	Blocks  [3]int // stored, fixed, dynamic
	Matches int
	Final   bool
	Flushes int
}

// Message compresses data into one permessage-deflate message payload: a raw
// DEFLATE stream ending in an empty stored block whose trailing 00 00 ff ff has
// been removed (RFC 7692 7.2.1).
func Message(data []byte, r Rand, o Options) ([]byte, Info) {
	var info Info
	w := &bitw{}
	useMatches := r.Intn(5) != 0
	window := []int{32768, 32768, 4096, 256}[r.Intn(4)]
	toks := tokenize(data, r, window, useMatches)
	for _, t := range toks {
		if t.len > 0 {
			info.Matches++
		}
	}
	// cut tokens into blocks
	var blocks [][]token
	if len(toks) > 0 {
		nb := 1
		if r.Intn(2) == 0 {
			nb = r.Range(1, 6)
		}
		rem := toks
		for b := 0; b < nb && len(rem) > 0; b++ {
			n := len(rem)
			if b < nb-1 {
				n = r.Range(0, len(rem))
			}
			blocks = append(blocks, rem[:n])
			rem = rem[n:]
		}
		if len(rem) > 0 {
			blocks = append(blocks, rem)
		}
	} else if r.Bool() {
		blocks = append(blocks, nil) // an explicit empty block
	}
	for bi, blk := range blocks {
		final := o.Final && bi == len(blocks)-1
		bt := r.Intn(3)
		switch bt {
		case 0:
			writeStored(w, expand2(toks, blocks, bi, data), final)
		case 1:
			writeFixed(w, blk, final)
		default:
			writeDynamic(w, blk, r, final)
		}
		info.Blocks[bt]++
		if o.MidFlush && bi < len(blocks)-1 && r.Bool() {
			w.bits(0, 3)
			w.align()
			w.out = append(w.out, 0, 0, 0xff, 0xff)
			info.Flushes++
		}
	}
	if o.Final && len(blocks) == 0 {
		writeFixed(w, nil, true)
		info.Blocks[1]++
	}
	info.Final = o.Final
	// final sync flush: empty non-final stored block, then drop 00 00 ff ff
	w.bits(0, 3)
	w.align()
	return w.out, info
}

// expand2 returns the plaintext bytes covered by block bi (stored blocks need
// the literal bytes; matches may reach into earlier blocks).
func expand2(all []token, blocks [][]token, bi int, data []byte) []byte {
	start := 0
	for i := 0; i < bi; i++ {
		for _, t := range blocks[i] {
			if t.len == 0 {
				start++
			} else {
				start += t.len
			}
		}
	}
	n := 0
	for _, t := range blocks[bi] {
		if t.len == 0 {
			n++
		} else {
			n += t.len
		}
	}
	return data[start : start+n]
}
