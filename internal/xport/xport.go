// Package xport provides the scripted net.Conn every monitor observes the
// library through. All state is under one mutex; a log entry and the effect it
// records are made in the same critical section.
package xport

import (
	"errors"
	"fmt"
	"io"
	"net"
	"os"
	"sync"
	"time"
)

type OpKind int

const (
	OpRead OpKind = iota
	OpWrite
	OpSetDeadline
	OpSetReadDeadline
	OpSetWriteDeadline
	OpClose
)

func (k OpKind) String() string {
	return [...]string{"Read", "Write", "SetDeadline", "SetReadDeadline", "SetWriteDeadline", "Close"}[k]
}

// Op is one transport operation as the scripted conn saw it.
type Op struct {
	Idx  int
	Kind OpKind
	Data []byte    // Write: bytes accepted; Read: bytes returned
	Want int       // Write: len(p) offered; Read: len(p)
	T    time.Time // deadline ops
	Err  error
}

// Chunk is one scripted read result. If Err is non-nil it is returned together
// with the last bytes of Data (or alone when Data is empty).
type Chunk struct {
	Data []byte
	Err  error
}

// FaultKind selects how an injected fault manifests.
type FaultKind int

const (
	FaultNone FaultKind = iota
	FaultErr
	FaultTimeout
	FaultShort // writes: accept about half, then error. reads: same as FaultErr
	FaultEOF
	// FaultNoDeadline: the error wraps os.ErrNoDeadline in a *net.OpError (a transport without
	// deadline support says so this way)
	FaultNoDeadline
	// FaultShortWrapped: like FaultShort, the error wraps io.ErrShortWrite
	FaultShortWrapped
	// FaultShortTimeout: like FaultShort, the error is a timeout (a stalled peer)
	FaultShortTimeout
)

func (k FaultKind) String() string {
	return [...]string{"none", "error", "timeout", "short", "eof", "error wrapping os.ErrNoDeadline", "short write, error wrapping io.ErrShortWrite", "short write, then timeout"}[k]
}

// TimeoutErr is a net.Error with Timeout() == true.
type TimeoutErr struct{ S string }

func (e *TimeoutErr) Error() string   { return e.S }
func (e *TimeoutErr) Timeout() bool   { return true }
func (e *TimeoutErr) Temporary() bool { return true }

// ErrInjected is the plain injected error.
var ErrInjected = errors.New("xport: injected fault")

// ErrClosed is returned for operations on a closed scripted conn.
var ErrClosed = errors.New("xport: use of closed connection")

func (k FaultKind) Err() error {
	switch k {
	case FaultTimeout, FaultShortTimeout:
		return &TimeoutErr{"xport: injected timeout"}
	case FaultEOF:
		return io.EOF
	case FaultNoDeadline:
		return &net.OpError{Op: "set", Net: "xport", Err: os.ErrNoDeadline}
	case FaultShortWrapped:
		return &net.OpError{Op: "write", Net: "xport", Err: io.ErrShortWrite}
	default:
		return ErrInjected
	}
}

type addr string

func (a addr) Network() string { return "xport" }
func (a addr) String() string  { return string(a) }

// Conn is a scripted net.Conn.
type Conn struct {
	mu   sync.Mutex
	cond *sync.Cond

	script []Chunk
	si     int // current chunk
	off    int // offset in current chunk
	// EndErr is returned by Read when the script is exhausted (default io.EOF).
	EndErr error
	// Block makes Read wait for more script (or Close) instead of returning EndErr.
	Block bool
	// ReadsAfterEnd counts Read calls made after the script was exhausted.
	ReadsAfterEnd int

	Log []Op
	// NoLog switches the operation log off (allocation-sensitive monitors).
	NoLog bool
	// WriteErr, when non-nil, makes every Write fail with it (nothing is accepted).
	WriteErr error
	out      []byte // all bytes accepted by Write

	// Counted decides which op kinds take part in fault indexing (nil = all).
	Counted func(OpKind) bool
	counted int
	// FaultAt maps a counted-op index to a fault.
	FaultAt map[int]FaultKind
	// Sticky: after the first injected fault all later counted ops fail too.
	Sticky  bool
	tripped FaultKind
	// FaultsHit counts faults that actually fired.
	FaultsHit int
	// ClearDawdle makes a deadline call that CLEARS the deadline (zero time) take this long.
	ClearDawdle time.Duration
	// LenientDeadlines: deadline calls succeed even on a closed connection (transports that
	// do not implement deadlines accept and ignore them).
	LenientDeadlines bool
	// OnCounted, if set, is called (under the lock) with the index of every counted operation
	// before it executes; it must not block (used to cancel a context at a chosen point).
	OnCounted func(idx int)

	// OnWrite, if set, is called (under the lock) after every accepted Write with
	// all bytes written so far; the chunks it returns are appended to the script.
	OnWrite func(all []byte) []Chunk

	// Gate, when non-nil, is waited on inside Write (outside the lock, inside
	// the in-flight window) before the bytes are accepted. GateIf restricts the
	// gate to writes it selects; Gated is signalled when a write is held.
	Gate   chan struct{}
	GateIf func(p []byte) bool
	Gated  chan struct{}
	// Dawdle makes Write sleep inside its in-flight window; DawdleFn is called there.
	Dawdle   time.Duration
	DawdleFn func()
	// Peer, when set, receives every accepted write on its read side (duplex pipe).
	Peer *Conn
	// ReadMax, when set, bounds the bytes returned by one Read.
	ReadMax func() int
	// SeqReports: write-side operations out of the SetWriteDeadline/Write pattern.
	SeqReports []string
	lastWS     OpKind
	hasLastWS  bool

	inWrite  int
	Overlaps []string // overlap monitor reports

	closed     bool
	CloseCount int

	RD, WD   time.Time // last armed deadlines
	RDSet    bool
	WDSet    bool
	Deadline struct{ Calls int }
}

// New returns a conn that will play script on its read side.
func New(script []Chunk) *Conn {
	c := &Conn{script: script, EndErr: io.EOF}
	c.cond = sync.NewCond(&c.mu)
	return c
}

func (c *Conn) LocalAddr() net.Addr  { return addr("local") }
func (c *Conn) RemoteAddr() net.Addr { return addr("remote") }

// fault decides, under the lock, whether the op about to be logged faults.
func (c *Conn) fault(k OpKind) FaultKind {
	if c.Counted != nil && !c.Counted(k) {
		return FaultNone
	}
	idx := c.counted
	c.counted++
	if c.OnCounted != nil {
		c.OnCounted(idx)
	}
	if c.Sticky && c.tripped != FaultNone {
		return c.tripped
	}
	if fk, ok := c.FaultAt[idx]; ok && fk != FaultNone {
		c.tripped = fk
		c.FaultsHit++
		return fk
	}
	return FaultNone
}

// CountedOps returns how many counted operations happened so far.
func (c *Conn) CountedOps() int {
	c.mu.Lock()
	defer c.mu.Unlock()
	return c.counted
}

func (c *Conn) log(op Op) {
	if c.NoLog {
		return
	}
	op.Idx = len(c.Log)
	c.Log = append(c.Log, op)
}

func (c *Conn) Read(p []byte) (int, error) {
	c.mu.Lock()
	defer c.mu.Unlock()
	if fk := c.fault(OpRead); fk != FaultNone {
		err := fk.Err()
		c.log(Op{Kind: OpRead, Want: len(p), Err: err})
		return 0, err
	}
	for {
		if c.closed {
			c.log(Op{Kind: OpRead, Want: len(p), Err: ErrClosed})
			return 0, ErrClosed
		}
		if c.si < len(c.script) {
			break
		}
		if !c.Block {
			c.ReadsAfterEnd++
			c.log(Op{Kind: OpRead, Want: len(p), Err: c.EndErr})
			return 0, c.EndErr
		}
		// a blocked read honours the armed read deadline
		if c.RDSet && !c.RD.IsZero() {
			d := time.Until(c.RD)
			if d <= 0 {
				err := &TimeoutErr{"xport: i/o timeout (read deadline)"}
				c.log(Op{Kind: OpRead, Want: len(p), Err: err})
				return 0, err
			}
			time.AfterFunc(d+time.Millisecond, c.cond.Broadcast)
		}
		c.cond.Wait()
	}
	ch := &c.script[c.si]
	if c.ReadMax != nil && len(p) > 0 {
		if m := c.ReadMax(); m > 0 && m < len(p) {
			p = p[:m]
		}
	}
	n := copy(p, ch.Data[c.off:])
	c.off += n
	var err error
	if c.off >= len(ch.Data) {
		err = ch.Err
		c.si++
		c.off = 0
	}
	if !c.NoLog {
		c.log(Op{Kind: OpRead, Want: len(p), Data: append([]byte(nil), p[:n]...), Err: err})
	}
	return n, err
}

// Feed appends chunks to the read script (wakes blocked readers).
func (c *Conn) Feed(chs ...Chunk) {
	c.mu.Lock()
	c.script = append(c.script, chs...)
	c.mu.Unlock()
	c.cond.Broadcast()
}

func (c *Conn) Write(p []byte) (int, error) {
	c.mu.Lock()
	if c.inWrite > 0 {
		c.Overlaps = append(c.Overlaps, fmt.Sprintf("Write(%d bytes) entered while another Write is in flight", len(p)))
	}
	c.inWrite++
	gate, dawdle, dfn := c.Gate, c.Dawdle, c.DawdleFn
	if gate != nil && c.GateIf != nil && !c.GateIf(p) {
		gate = nil
	}
	gated := c.Gated
	c.mu.Unlock()
	if gate != nil {
		if gated != nil {
			select {
			case gated <- struct{}{}:
			default:
			}
		}
		<-gate
	}
	if dawdle > 0 {
		time.Sleep(dawdle)
	}
	if dfn != nil {
		dfn()
	}
	c.mu.Lock()
	c.inWrite--
	c.lastWS, c.hasLastWS = OpWrite, true
	if c.closed {
		c.log(Op{Kind: OpWrite, Want: len(p), Err: ErrClosed})
		c.mu.Unlock()
		return 0, ErrClosed
	}
	if c.WriteErr != nil {
		c.log(Op{Kind: OpWrite, Want: len(p), Err: c.WriteErr})
		err := c.WriteErr
		c.mu.Unlock()
		return 0, err
	}
	if fk := c.fault(OpWrite); fk != FaultNone {
		err := fk.Err()
		n := 0
		if fk == FaultShort || fk == FaultShortWrapped || fk == FaultShortTimeout {
			n = len(p) / 2
			c.out = append(c.out, p[:n]...)
		}
		c.log(Op{Kind: OpWrite, Want: len(p), Data: append([]byte(nil), p[:n]...), Err: err})
		c.mu.Unlock()
		return n, err
	}
	cp := append([]byte(nil), p...)
	c.out = append(c.out, p...)
	c.log(Op{Kind: OpWrite, Want: len(p), Data: cp})
	if c.OnWrite != nil {
		if more := c.OnWrite(c.out); len(more) > 0 {
			c.script = append(c.script, more...)
			c.cond.Broadcast()
		}
	}
	peer := c.Peer
	c.mu.Unlock()
	if peer != nil && len(cp) > 0 {
		peer.Feed(Chunk{Data: cp})
	}
	return len(p), nil
}

func (c *Conn) deadline(k OpKind, t time.Time) error {
	if d := c.ClearDawdle; d > 0 && t.IsZero() {
		time.Sleep(d)
	}
	c.mu.Lock()
	defer c.mu.Unlock()
	if k == OpSetWriteDeadline && c.inWrite > 0 {
		c.Overlaps = append(c.Overlaps, "SetWriteDeadline entered while a Write is in flight")
	}
	if k == OpSetWriteDeadline {
		if c.hasLastWS && c.lastWS == OpSetWriteDeadline {
			c.SeqReports = append(c.SeqReports, "two SetWriteDeadline calls with no Write between them (a foreign deadline slipped between a frame's deadline and its Write)")
		}
		c.lastWS, c.hasLastWS = OpSetWriteDeadline, true
	}
	if fk := c.fault(k); fk != FaultNone {
		err := fk.Err()
		c.log(Op{Kind: k, T: t, Err: err})
		return err
	}
	if c.closed {
		if c.LenientDeadlines {
			c.log(Op{Kind: k, T: t})
			return nil
		}
		c.log(Op{Kind: k, T: t, Err: ErrClosed})
		return ErrClosed
	}
	switch k {
	case OpSetDeadline:
		c.RD, c.WD, c.RDSet, c.WDSet = t, t, true, true
	case OpSetReadDeadline:
		c.RD, c.RDSet = t, true
	case OpSetWriteDeadline:
		c.WD, c.WDSet = t, true
	}
	c.log(Op{Kind: k, T: t})
	c.cond.Broadcast()
	return nil
}

func (c *Conn) SetDeadline(t time.Time) error      { return c.deadline(OpSetDeadline, t) }
func (c *Conn) SetReadDeadline(t time.Time) error  { return c.deadline(OpSetReadDeadline, t) }
func (c *Conn) SetWriteDeadline(t time.Time) error { return c.deadline(OpSetWriteDeadline, t) }

func (c *Conn) Close() error {
	c.mu.Lock()
	var err error
	if fk := c.fault(OpClose); fk != FaultNone {
		err = fk.Err()
	}
	c.closed = true
	c.CloseCount++
	c.log(Op{Kind: OpClose, Err: err})
	peer := c.Peer
	c.mu.Unlock()
	c.cond.Broadcast()
	if peer != nil {
		// the other end sees end-of-stream once it has drained what was sent
		peer.mu.Lock()
		peer.Block = false
		peer.mu.Unlock()
		peer.cond.Broadcast()
	}
	return err
}

// Written returns a copy of all bytes accepted by Write.
func (c *Conn) Written() []byte {
	c.mu.Lock()
	defer c.mu.Unlock()
	return append([]byte(nil), c.out...)
}

// WrittenLen returns the number of bytes accepted so far.
func (c *Conn) WrittenLen() int {
	c.mu.Lock()
	defer c.mu.Unlock()
	return len(c.out)
}

// Ops returns a copy of the log.
func (c *Conn) Ops() []Op {
	c.mu.Lock()
	defer c.mu.Unlock()
	return append([]Op(nil), c.Log...)
}

// Closed reports whether Close was called.
func (c *Conn) Closed() bool {
	c.mu.Lock()
	defer c.mu.Unlock()
	return c.closed
}

// Deadlines returns the last armed read and write deadlines.
func (c *Conn) Deadlines() (rd, wd time.Time) {
	c.mu.Lock()
	defer c.mu.Unlock()
	return c.RD, c.WD
}

// OverlapReports returns what the overlap monitor saw.
func (c *Conn) OverlapReports() []string {
	c.mu.Lock()
	defer c.mu.Unlock()
	return append([]string(nil), c.Overlaps...)
}

// SeqViolations returns the write-side sequencing reports.
func (c *Conn) SeqViolations() []string {
	c.mu.Lock()
	defer c.mu.Unlock()
	return append([]string(nil), c.SeqReports...)
}

// NewPipe returns two connected blocking conns.
func NewPipe() (a, b *Conn) {
	a, b = New(nil), New(nil)
	a.Block, b.Block = true, true
	a.Peer, b.Peer = b, a
	return
}

// Consumed returns how many script bytes have been handed to Read callers.
func (c *Conn) Consumed() int {
	c.mu.Lock()
	defer c.mu.Unlock()
	n := 0
	for i := 0; i < c.si && i < len(c.script); i++ {
		n += len(c.script[i].Data)
	}
	return n + c.off
}

// Rechunk styles.
const (
	ChunkWhole = iota
	ChunkByte
	ChunkHalves
	ChunkSmallRandom
	ChunkRandom
	ChunkWithEmpty
	NChunkStyles
)

// Rand is the subset of gen.R that Rechunk needs.
type Rand interface {
	Intn(int) int
	Range(int, int) int
}

// Rechunk cuts data into read chunks in the given style.
func Rechunk(data []byte, style int, r Rand) []Chunk {
	var out []Chunk
	switch style {
	case ChunkWhole:
		if len(data) > 0 {
			out = append(out, Chunk{Data: data})
		}
	case ChunkByte:
		for i := range data {
			out = append(out, Chunk{Data: data[i : i+1]})
		}
	case ChunkHalves:
		h := len(data) / 2
		if h > 0 {
			out = append(out, Chunk{Data: data[:h]})
		}
		if len(data)-h > 0 {
			out = append(out, Chunk{Data: data[h:]})
		}
	default:
		max := 4096
		if style == ChunkSmallRandom || style == ChunkWithEmpty {
			max = 9
		}
		empties := 0
		for len(data) > 0 {
			if style == ChunkWithEmpty && empties < 3 && r.Intn(8) == 0 {
				out = append(out, Chunk{})
				empties++
			}
			n := r.Range(1, max)
			if n > len(data) {
				n = len(data)
			}
			out = append(out, Chunk{Data: data[:n]})
			data = data[n:]
		}
	}
	return out
}
