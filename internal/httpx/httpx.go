// Package httpx holds strict HTTP/1.1 head parsers written from RFC 9110/9112
// (not using net/http) for what Upgrade writes and what Dial writes.
package httpx

import (
	"bytes"
	"fmt"
	"strings"
)

type Field struct{ Name, Value string }

type Head struct {
	// Request: Method, Target. Response: Status, Reason.
	Method, Target string
	Proto          string
	Status         int
	Reason         string
	Fields         []Field
	Lines          int // CRLF-terminated lines in the head, including the start line, excluding the final empty line
	Len            int // bytes of the head including the terminating CRLFCRLF
}

func isTchar(c byte) bool {
	switch {
	case c >= '0' && c <= '9', c >= 'a' && c <= 'z', c >= 'A' && c <= 'Z':
		return true
	}
	return strings.IndexByte("!#$%&'*+-.^_`|~", c) >= 0
}

func isToken(s string) bool {
	if s == "" {
		return false
	}
	for i := 0; i < len(s); i++ {
		if !isTchar(s[i]) {
			return false
		}
	}
	return true
}

// IsToken reports whether s is an RFC 9110 token.
func IsToken(s string) bool { return isToken(s) }

func parseFields(lines []string) ([]Field, error) {
	var fs []Field
	for i, l := range lines {
		c := strings.IndexByte(l, ':')
		if c <= 0 {
			return nil, fmt.Errorf("header line %d has no field name: %q", i+1, l)
		}
		name := l[:c]
		if !isToken(name) {
			return nil, fmt.Errorf("header line %d: field name %q is not a token", i+1, name)
		}
		val := strings.Trim(l[c+1:], " \t")
		// CR and LF cannot occur here (lines were split on CRLF and checked for
		// bare CR/LF); other bytes do not change the line structure.
		fs = append(fs, Field{name, val})
	}
	return fs, nil
}

// splitHead cuts the head at the first CRLFCRLF and splits it into lines,
// insisting that CR and LF occur only as CRLF line terminators.
func splitHead(b []byte) ([]string, int, error) {
	end := bytes.Index(b, []byte("\r\n\r\n"))
	if end < 0 {
		return nil, 0, fmt.Errorf("no CRLFCRLF: head incomplete")
	}
	head := string(b[:end])
	lines := strings.Split(head, "\r\n")
	for i, l := range lines {
		if strings.ContainsAny(l, "\r\n") {
			return nil, 0, fmt.Errorf("line %d contains a bare CR or LF: %q", i, l)
		}
	}
	return lines, end + 4, nil
}

// ParseResponse parses a response head strictly.
func ParseResponse(b []byte) (*Head, error) {
	lines, n, err := splitHead(b)
	if err != nil {
		return nil, err
	}
	h := &Head{Lines: len(lines), Len: n}
	sl := lines[0]
	// status-line = HTTP-version SP status-code SP [reason-phrase]
	if len(sl) < 12 || sl[8] != ' ' {
		return nil, fmt.Errorf("malformed status line %q", sl)
	}
	h.Proto = sl[:8]
	if h.Proto != "HTTP/1.1" && h.Proto != "HTTP/1.0" {
		return nil, fmt.Errorf("bad HTTP version in %q", sl)
	}
	code := sl[9:12]
	for _, c := range []byte(code) {
		if c < '0' || c > '9' {
			return nil, fmt.Errorf("bad status code in %q", sl)
		}
	}
	h.Status = int(code[0]-'0')*100 + int(code[1]-'0')*10 + int(code[2]-'0')
	if len(sl) > 12 {
		if sl[12] != ' ' {
			return nil, fmt.Errorf("malformed status line %q", sl)
		}
		h.Reason = sl[13:]
	}
	h.Fields, err = parseFields(lines[1:])
	return h, err
}

// ParseRequest parses a request head strictly.
func ParseRequest(b []byte) (*Head, error) {
	lines, n, err := splitHead(b)
	if err != nil {
		return nil, err
	}
	h := &Head{Lines: len(lines), Len: n}
	parts := strings.Split(lines[0], " ")
	if len(parts) != 3 {
		return nil, fmt.Errorf("request line %q does not have exactly three SP-separated parts", lines[0])
	}
	h.Method, h.Target, h.Proto = parts[0], parts[1], parts[2]
	if !isToken(h.Method) {
		return nil, fmt.Errorf("method %q is not a token", h.Method)
	}
	if h.Target == "" {
		return nil, fmt.Errorf("empty request target")
	}
	for i := 0; i < len(h.Target); i++ {
		if c := h.Target[i]; c <= 0x20 || c >= 0x7f {
			return nil, fmt.Errorf("request target %q contains byte 0x%02x", h.Target, c)
		}
	}
	if h.Proto != "HTTP/1.1" {
		return nil, fmt.Errorf("request line protocol %q", h.Proto)
	}
	h.Fields, err = parseFields(lines[1:])
	return h, err
}

// Get returns all values of a field (case-insensitive name).
func (h *Head) Get(name string) []string {
	var out []string
	for _, f := range h.Fields {
		if strings.EqualFold(f.Name, name) {
			out = append(out, f.Value)
		}
	}
	return out
}

// ListHasToken reports whether any comma-separated element of any value
// equals tok under ASCII case folding.
func ListHasToken(values []string, tok string) bool {
	for _, v := range values {
		for _, e := range strings.Split(v, ",") {
			if asciiEqualFold(strings.Trim(e, " \t"), tok) {
				return true
			}
		}
	}
	return false
}

func asciiLower(c byte) byte {
	if c >= 'A' && c <= 'Z' {
		return c + 32
	}
	return c
}

func asciiEqualFold(a, b string) bool {
	if len(a) != len(b) {
		return false
	}
	for i := 0; i < len(a); i++ {
		if asciiLower(a[i]) != asciiLower(b[i]) {
			return false
		}
	}
	return true
}

// ASCIIEqualFold is byte-wise equality under ASCII case folding.
func ASCIIEqualFold(a, b string) bool { return asciiEqualFold(a, b) }

// ListClass classifies a set of header lines against a wanted token:
// Has: some line is a well-formed 1#token list (no empty elements) containing tok.
// None: no element of any line equals tok.
type ListClass int

const (
	ListHas ListClass = iota
	ListNone
	ListUnclear
)

func ClassifyList(values []string, tok string) ListClass {
	any := false
	for _, v := range values {
		elems := strings.Split(v, ",")
		well := true
		has := false
		for _, e := range elems {
			t := strings.Trim(e, " \t")
			if !isToken(t) {
				well = false
			}
			if asciiEqualFold(t, tok) {
				has = true
			}
		}
		if has {
			any = true
			if well {
				return ListHas
			}
		}
	}
	if any {
		return ListUnclear
	}
	return ListNone
}

// Ext is one element of a Sec-WebSocket-Extensions list.
type Ext struct {
	Name   string
	Params [][2]string
}

// ParseExtensionList parses one header line as
//
//	1#( token *( OWS ";" OWS token [ "=" ( token / quoted-string ) ] ) )
//
// per RFC 6455 9.1 / RFC 9110 5.6 (quoted-string with backslash escapes). ok is
// false when the line does not match the grammar.
func ParseExtensionList(v string) (exts []Ext, ok bool) {
	i := 0
	ws := func() {
		for i < len(v) && (v[i] == ' ' || v[i] == '\t') {
			i++
		}
	}
	token := func() string {
		st := i
		for i < len(v) && isTchar(v[i]) {
			i++
		}
		return v[st:i]
	}
	for {
		ws()
		name := token()
		if name == "" {
			return nil, false
		}
		e := Ext{Name: name}
		for {
			ws()
			if i >= len(v) || v[i] != ';' {
				break
			}
			i++
			ws()
			k := token()
			if k == "" {
				return nil, false
			}
			val := ""
			ws()
			if i < len(v) && v[i] == '=' {
				i++
				ws()
				if i < len(v) && v[i] == '"' {
					i++
					var b []byte
					closed := false
					for i < len(v) {
						c := v[i]
						if c == '\\' {
							if i+1 >= len(v) {
								return nil, false
							}
							b = append(b, v[i+1])
							i += 2
							continue
						}
						i++
						if c == '"' {
							closed = true
							break
						}
						b = append(b, c)
					}
					if !closed {
						return nil, false
					}
					val = string(b)
				} else {
					val = token()
					if val == "" {
						return nil, false
					}
				}
			}
			e.Params = append(e.Params, [2]string{k, val})
		}
		exts = append(exts, e)
		ws()
		if i >= len(v) {
			return exts, true
		}
		if v[i] != ',' {
			return nil, false
		}
		i++
	}
}
