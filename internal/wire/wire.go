// Package wire is an RFC 6455 / RFC 7692 frame codec and sequence validator
// written from the RFC text. It shares no code with the library under test.
package wire

import (
	"bytes"
	"compress/flate"
	"errors"
	"fmt"
	"io"
)

// Opcodes (RFC 6455 section 5.2).
const (
	OpCont   = 0x0
	OpText   = 0x1
	OpBinary = 0x2
	OpClose  = 0x8
	OpPing   = 0x9
	OpPong   = 0xA
)

// Frame is one decoded (or to-be-encoded) frame. Payload is always unmasked.
type Frame struct {
	Fin, Rsv1, Rsv2, Rsv3 bool
	Op                    int
	Masked                bool
	Key                   [4]byte
	Payload               []byte
	// LenForm: 0 = choose minimal when encoding; when decoding it records the
	// form found: 7, 16 or 64.
	LenForm int
	// ClaimLen, when HasClaim is set, is written into the length field instead
	// of len(Payload) (for hostile streams). Encoding only.
	HasClaim bool
	ClaimLen uint64
	Off      int // byte offset of the frame in the decoded stream
	Size     int // encoded size
}

func (f Frame) IsControl() bool { return f.Op >= 8 }

func (f Frame) String() string {
	fl := ""
	if f.Fin {
		fl += "F"
	}
	if f.Rsv1 {
		fl += "1"
	}
	if f.Rsv2 {
		fl += "2"
	}
	if f.Rsv3 {
		fl += "3"
	}
	if f.Masked {
		fl += "M"
	}
	return fmt.Sprintf("{op=%d %s len=%d}", f.Op, fl, len(f.Payload))
}

// Append encodes f onto dst.
func Append(dst []byte, f Frame) []byte {
	b0 := byte(f.Op & 0xf)
	if f.Fin {
		b0 |= 0x80
	}
	if f.Rsv1 {
		b0 |= 0x40
	}
	if f.Rsv2 {
		b0 |= 0x20
	}
	if f.Rsv3 {
		b0 |= 0x10
	}
	n := uint64(len(f.Payload))
	if f.HasClaim {
		n = f.ClaimLen
	}
	form := f.LenForm
	if form == 0 {
		switch {
		case n <= 125:
			form = 7
		case n <= 0xffff:
			form = 16
		default:
			form = 64
		}
	}
	var b1 byte
	if f.Masked {
		b1 = 0x80
	}
	switch form {
	case 7:
		dst = append(dst, b0, b1|byte(n&0x7f))
	case 16:
		dst = append(dst, b0, b1|126, byte(n>>8), byte(n))
	default:
		dst = append(dst, b0, b1|127,
			byte(n>>56), byte(n>>48), byte(n>>40), byte(n>>32),
			byte(n>>24), byte(n>>16), byte(n>>8), byte(n))
	}
	if f.Masked {
		dst = append(dst, f.Key[:]...)
		st := len(dst)
		dst = append(dst, f.Payload...)
		for i := st; i < len(dst); i++ {
			dst[i] ^= f.Key[(i-st)&3]
		}
	} else {
		dst = append(dst, f.Payload...)
	}
	return dst
}

// Encode encodes a list of frames.
func Encode(fs []Frame) []byte {
	var b []byte
	for _, f := range fs {
		b = Append(b, f)
	}
	return b
}

// ErrShort means the buffer ends inside a frame.
var ErrShort = errors.New("wire: incomplete frame")

// DecodeOne decodes the frame at the start of b.
func DecodeOne(b []byte) (Frame, int, error) {
	var f Frame
	if len(b) < 2 {
		return f, 0, ErrShort
	}
	f.Fin = b[0]&0x80 != 0
	f.Rsv1 = b[0]&0x40 != 0
	f.Rsv2 = b[0]&0x20 != 0
	f.Rsv3 = b[0]&0x10 != 0
	f.Op = int(b[0] & 0xf)
	f.Masked = b[1]&0x80 != 0
	l7 := uint64(b[1] & 0x7f)
	p := 2
	n := l7
	f.LenForm = 7
	switch l7 {
	case 126:
		if len(b) < p+2 {
			return f, 0, ErrShort
		}
		n = uint64(b[p])<<8 | uint64(b[p+1])
		p += 2
		f.LenForm = 16
	case 127:
		if len(b) < p+8 {
			return f, 0, ErrShort
		}
		n = 0
		for i := 0; i < 8; i++ {
			n = n<<8 | uint64(b[p+i])
		}
		p += 8
		f.LenForm = 64
	}
	if n>>63 != 0 {
		return f, 0, fmt.Errorf("wire: length with top bit set")
	}
	if f.Masked {
		if len(b) < p+4 {
			return f, 0, ErrShort
		}
		copy(f.Key[:], b[p:p+4])
		p += 4
	}
	if uint64(len(b)-p) < n {
		return f, 0, ErrShort
	}
	f.Payload = make([]byte, n)
	copy(f.Payload, b[p:p+int(n)])
	if f.Masked {
		for i := range f.Payload {
			f.Payload[i] ^= f.Key[i&3]
		}
	}
	f.Size = p + int(n)
	return f, f.Size, nil
}

// Decode decodes all whole frames in b; rest is the undecodable/incomplete
// tail (len(rest)==0 when b ends on a frame boundary).
func Decode(b []byte) (frames []Frame, rest []byte, err error) {
	off := 0
	for off < len(b) {
		f, n, e := DecodeOne(b[off:])
		if e == ErrShort {
			return frames, b[off:], nil
		}
		if e != nil {
			return frames, b[off:], e
		}
		f.Off = off
		frames = append(frames, f)
		off += n
	}
	return frames, nil, nil
}

// Msg is one message reassembled from frames.
type Msg struct {
	Op         int    // OpText/OpBinary or a control opcode
	Raw        []byte // concatenated frame payloads (still compressed if Compressed)
	Data       []byte // application payload (inflated if Compressed)
	Compressed bool
	NFrames    int
	First      int // index of first frame
	Last       int // index of last frame
	Keys       [][4]byte
}

// Violation describes why a written stream is not well-formed.
type Violation struct {
	Frame int
	Kind  string
	Msg   string
}

func (v *Violation) Error() string { return fmt.Sprintf("frame %d: %s: %s", v.Frame, v.Kind, v.Msg) }

// Validate applies the sender-side rules of RFC 6455 5.2-5.5 and RFC 7692 6 to
// a frame list produced by one endpoint. senderIsClient decides the masking
// rule; negotiated says whether permessage-deflate was agreed. A trailing
// unfinished data message is returned in open (nil when none).
func Validate(frames []Frame, senderIsClient, negotiated bool) (msgs []Msg, open *Msg, v *Violation) {
	var cur *Msg
	for i, f := range frames {
		bad := func(kind, format string, a ...interface{}) ([]Msg, *Msg, *Violation) {
			return msgs, cur, &Violation{Frame: i, Kind: kind, Msg: fmt.Sprintf(format, a...) + " " + f.String()}
		}
		if f.Masked != senderIsClient {
			return bad("mask", "mask bit %v but sender is client=%v", f.Masked, senderIsClient)
		}
		n := len(f.Payload)
		switch {
		case n <= 125 && f.LenForm != 7, n > 125 && n <= 0xffff && f.LenForm != 16, n > 0xffff && f.LenForm != 64:
			return bad("length-not-minimal", "len %d encoded in %d-bit form", n, f.LenForm)
		}
		if f.Rsv2 || f.Rsv3 {
			return bad("rsv23", "RSV2/RSV3 set")
		}
		switch f.Op {
		case OpClose, OpPing, OpPong:
			if !f.Fin {
				return bad("control-fragmented", "control frame without FIN")
			}
			if n > 125 {
				return bad("control-too-long", "control frame with %d bytes", n)
			}
			if f.Rsv1 {
				return bad("rsv1-control", "RSV1 on a control frame")
			}
			m := Msg{Op: f.Op, Raw: f.Payload, Data: f.Payload, NFrames: 1, First: i, Last: i}
			if f.Masked {
				m.Keys = [][4]byte{f.Key}
			}
			msgs = append(msgs, m)
		case OpText, OpBinary:
			if cur != nil {
				return bad("data-inside-message", "new data frame while a message is open")
			}
			if f.Rsv1 && !negotiated {
				return bad("rsv1-not-negotiated", "RSV1 without permessage-deflate")
			}
			cur = &Msg{Op: f.Op, Compressed: f.Rsv1, First: i}
		case OpCont:
			if cur == nil {
				return bad("continuation-without-message", "continuation with no message open")
			}
			if f.Rsv1 {
				return bad("rsv1-continuation", "RSV1 on a continuation frame")
			}
		default:
			return bad("opcode", "reserved opcode %d", f.Op)
		}
		if !f.IsControl() {
			cur.Raw = append(cur.Raw, f.Payload...)
			cur.NFrames++
			cur.Last = i
			if f.Masked {
				cur.Keys = append(cur.Keys, f.Key)
			}
			if f.Fin {
				if cur.Compressed {
					d, err := Inflate(cur.Raw)
					if err != nil {
						return bad("inflate", "compressed message does not inflate: %v", err)
					}
					cur.Data = d
				} else {
					cur.Data = cur.Raw
				}
				msgs = append(msgs, *cur)
				cur = nil
			}
		}
	}
	return msgs, cur, nil
}

// Inflate decompresses one permessage-deflate message payload per RFC 7692
// 7.2.2: append 00 00 ff ff and inflate. Uses the standard library inflater.
func Inflate(raw []byte) ([]byte, error) {
	in := make([]byte, 0, len(raw)+9)
	in = append(in, raw...)
	in = append(in, 0x00, 0x00, 0xff, 0xff)
	// A final empty stored block lets the stdlib reader terminate cleanly.
	in = append(in, 0x01, 0x00, 0x00, 0xff, 0xff)
	rd := bytes.NewReader(in)
	fr := flate.NewReader(rd)
	var out bytes.Buffer
	_, err := io.Copy(&out, fr)
	if err != nil {
		return nil, err
	}
	// Everything up to (at least) the RFC tail must have been consumed, unless
	// a BFINAL block ended the stream earlier.
	return out.Bytes(), nil
}

// CloseBody splits a close payload.
func CloseBody(p []byte) (code int, reason string, ok bool) {
	if len(p) == 0 {
		return 1005, "", true
	}
	if len(p) == 1 {
		return 0, "", false
	}
	return int(p[0])<<8 | int(p[1]), string(p[2:]), true
}

// MkClose builds a close payload.
func MkClose(code int, reason string) []byte {
	b := make([]byte, 2+len(reason))
	b[0] = byte(code >> 8)
	b[1] = byte(code)
	copy(b[2:], reason)
	return b
}

// Close code classes on receipt (RFC 6455 7.4).
const (
	CodeValid = iota
	CodeInvalid
	CodeUnspecified
)

// ClassifyCloseCode says whether an endpoint must accept, must reject, or the
// properties leave open, a close status code received from a peer.
func ClassifyCloseCode(c int) int {
	switch {
	case c >= 1000 && c <= 1003, c >= 1007 && c <= 1011, c >= 3000 && c <= 4999:
		return CodeValid
	case c >= 1012 && c <= 1014:
		return CodeUnspecified
	default:
		return CodeInvalid
	}
}
