// Package gen holds the deterministic PRNG and the small generators shared by
// all monitors. Same (seed, property, index) => same case.
package gen

import (
	"encoding/binary"
	"hash/fnv"
)

// R is a splitmix64 generator.
type R struct{ s uint64 }

func New(seed uint64) *R { return &R{s: seed} }

// For derives an independent stream from a seed and labels.
func For(seed uint64, label string, idx int) *R {
	h := fnv.New64a()
	var b [8]byte
	binary.LittleEndian.PutUint64(b[:], seed)
	h.Write(b[:])
	h.Write([]byte(label))
	binary.LittleEndian.PutUint64(b[:], uint64(idx))
	h.Write(b[:])
	r := &R{s: h.Sum64()}
	r.U64()
	return r
}

func (r *R) U64() uint64 {
	r.s += 0x9e3779b97f4a7c15
	z := r.s
	z = (z ^ (z >> 30)) * 0xbf58476d1ce4e5b9
	z = (z ^ (z >> 27)) * 0x94d049bb133111eb
	return z ^ (z >> 31)
}

// Intn returns a value in [0,n). n<=0 gives 0.
func (r *R) Intn(n int) int {
	if n <= 0 {
		return 0
	}
	return int(r.U64() % uint64(n))
}

// Range returns a value in [lo,hi].
func (r *R) Range(lo, hi int) int {
	if hi <= lo {
		return lo
	}
	return lo + r.Intn(hi-lo+1)
}

func (r *R) Bool() bool { return r.U64()&1 == 1 }

// Chance returns true with probability num/den.
func (r *R) Chance(num, den int) bool { return r.Intn(den) < num }

func (r *R) Pick(xs []int) int { return xs[r.Intn(len(xs))] }

func (r *R) PickS(xs []string) string { return xs[r.Intn(len(xs))] }

func (r *R) Bytes(n int) []byte {
	b := make([]byte, n)
	r.Fill(b)
	return b
}

func (r *R) Fill(b []byte) {
	i := 0
	for ; i+8 <= len(b); i += 8 {
		binary.LittleEndian.PutUint64(b[i:], r.U64())
	}
	if i < len(b) {
		v := r.U64()
		for ; i < len(b); i++ {
			b[i] = byte(v)
			v >>= 8
		}
	}
}

// Payload classes.
const (
	PZeros = iota
	PFF
	PCounter
	PRandom
	PText
	PRepeatFar
	PTailMarker
	PJSONish
	NPayloadClasses
)

// Payload returns n bytes of the given class.
func (r *R) Payload(class, n int) []byte {
	b := make([]byte, n)
	switch class {
	case PZeros:
	case PFF:
		for i := range b {
			b[i] = 0xff
		}
	case PCounter:
		for i := range b {
			b[i] = byte(i)
		}
	case PRandom:
		r.Fill(b)
	case PText:
		const al = "the quick brown fox jumps over the lazy dog 0123456789 "
		off := r.Intn(len(al))
		for i := range b {
			b[i] = al[(i+off)%len(al)]
		}
	case PRepeatFar:
		// random block repeated at a distance > 32 KiB when n allows it
		blk := 40000
		if n < 2*blk {
			blk = n/2 + 1
		}
		r.Fill(b[:min(blk, n)])
		for i := blk; i < n; i++ {
			b[i] = b[i-blk]
		}
	case PTailMarker:
		r.Fill(b)
		m := []byte{0, 0, 0xff, 0xff}
		if n >= 4 {
			copy(b[n-4:], m)
		}
		if n >= 12 {
			copy(b[n/2:], m)
		}
	case PJSONish:
		const al = `{"a":[1,2,3],"b":"xyz","c":{"d":null}} `
		for i := range b {
			b[i] = al[i%len(al)]
		}
	}
	return b
}

func min(a, b int) int {
	if a < b {
		return a
	}
	return b
}

// BufSizes are the buffer sizes every connection-level monitor draws from.
var BufSizes = []int{1, 2, 3, 5, 16, 17, 100, 124, 125, 126, 256, 1024, 4096, 65536}

func (r *R) BufSize() int {
	if r.Chance(1, 5) {
		return r.Range(1, 5000)
	}
	return r.Pick(BufSizes)
}

// BoundarySize draws a message size around the interesting boundaries for a
// write buffer of w bytes; max bounds the random tail.
func (r *R) BoundarySize(w, max int) int {
	switch r.Intn(10) {
	case 0:
		return r.Range(0, 17)
	case 1:
		return r.Range(124, 128)
	case 2:
		return clamp(w+r.Range(-1, 1), max)
	case 3:
		return clamp(r.Range(1, 4)*w+r.Range(-1, 1), max)
	case 4:
		return clamp(2*(w+14)+r.Range(-1, 2), max)
	case 5:
		return clamp(r.Range(65534, 65537), max)
	case 6:
		return r.Range(0, min(300, max))
	case 7:
		return r.Range(0, min(5000, max))
	default:
		return r.Range(0, max)
	}
}

func clamp(v, max int) int {
	if v < 0 {
		return 0
	}
	if v > max {
		return max
	}
	return v
}

// Splits cuts n into pieces according to a random style; pieces may be 0.
func (r *R) Splits(n int) []int {
	var out []int
	style := r.Intn(6)
	rem := n
	if n == 0 {
		if r.Bool() {
			return []int{0}
		}
		return nil
	}
	for rem > 0 {
		var k int
		switch style {
		case 0:
			k = rem
		case 1:
			k = 1
		case 2:
			k = (rem + 1) / 2
		case 3:
			k = r.Range(0, min(rem, 17))
		case 4:
			k = r.Range(1, rem)
		default:
			k = r.Range(0, min(rem, 5000))
		}
		if k > rem {
			k = rem
		}
		out = append(out, k)
		rem -= k
		if len(out) > 64 && style != 0 {
			out = append(out, rem)
			rem = 0
		}
	}
	return out
}
