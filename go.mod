module verif

go 1.20

require (
	github.com/anishathalye/porcupine v1.3.0
	github.com/gorilla/websocket v0.0.0
)

require golang.org/x/net v0.26.0 // indirect

replace github.com/gorilla/websocket => /repo
