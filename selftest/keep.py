#!/usr/bin/env python3
"""selftest/keep.py <seed-dir> <seeded-id> <property> "<result line>"  -> /verif/seeded/<seeded-id>/"""
import sys, os, shutil, json
src, sid, prop, result = sys.argv[1:5]
dst = os.path.join("/verif/seeded", sid)
os.makedirs(dst, exist_ok=True)
shutil.copy(os.path.join(src, "patch.diff"), os.path.join(dst, "patch.diff"))
shutil.copy(os.path.join(src, "demo_test.go"), os.path.join(dst, "demo_test.go.txt"))
needs = open(os.path.join(src, "meta.txt")).read() if os.path.exists(os.path.join(src, "meta.txt")) else ""
meta = {
 "breaks_property": prop,
 "origin": "independent sub-agent given only the property text and a scratch worktree",
 "author_notes": needs,
 "confirmed_by": "selftest/seed.sh: patch applied to a scratch worktree under /var/tmp (library suite passes with it; demo_test.go fails with it and passes without it), then applied to /repo with `git -C /repo apply`, quick checks run, /repo restored with `git -C /repo checkout -- .`",
 "result": result,
}
json.dump(meta, open(os.path.join(dst, "meta.json"), "w"), indent=1)
print("kept", dst)
