#!/bin/bash
# selftest/seed.sh <seed-dir> <Cxx> [more checks...]
# Confirms a seeded change (patch.diff + demo_test.go) in a scratch worktree under /var/tmp:
#   suite passes with the patch, demo fails with it and passes without it;
# then applies it to /repo, runs the named quick checks, and restores /repo.
cd "$(dirname "$0")/.."
export GOFLAGS=-mod=mod GOPROXY=off GOSUMDB=off GOTOOLCHAIN=local
sd="$(cd "$1" && pwd)"; shift
wt=/var/tmp/seedcheck.$$
restore() { git -C /repo checkout -q -- . ; git -C /repo worktree remove --force "$wt" 2>/dev/null; rm -rf "$wt"; }
trap restore EXIT
if [ -n "$(git -C /repo status --porcelain --untracked-files=no)" ]; then echo "/repo has uncommitted changes; refusing" >&2; exit 2; fi
git -C /repo worktree add -q "$wt" HEAD || exit 2
cp "$sd/demo_test.go" "$wt/zz_seed_demo_test.go"
( cd "$wt" && go test -count=1 -run TestSeedDemo . >/dev/null 2>&1 ) && d0=demo-passes-without || d0=DEMO-FAILS-WITHOUT
if ! git -C "$wt" apply "$sd/patch.diff"; then echo "RESULT $sd patch does not apply"; exit 1; fi
( cd "$wt" && go build ./... >/dev/null 2>&1 ) || { echo "RESULT $sd does not build"; exit 1; }
( cd "$wt" && go test -count=1 -run TestSeedDemo . >/dev/null 2>&1 ) && d1=DEMO-PASSES-WITH || d1=demo-fails-with
rm "$wt/zz_seed_demo_test.go"
su=SUITE-FAILS; for try in 1 2 3 4; do ( cd "$wt" && timeout 120 go test -count=1 . >/dev/null 2>&1 ) && { su=suite-pass; break; }; done
line="RESULT $(basename $(dirname $(dirname "$sd")))/$(basename "$sd") $su $d0 $d1"
git -C /repo apply "$sd/patch.diff" || exit 2
for c in "$@"; do
  out=$(./check.sh "$c" quick 2>&1); rc=$?
  sig=$(echo "$out" | grep -m2 "violation signature" | sed 's/.*violation signature //' | tr '\n' ';')
  line="$line | $c rc=$rc $sig"
done
echo "$line"
