#!/usr/bin/env python3
"""Generates selftest/mutants/<name>.diff from the table below (each mutant = one
small edit of a library file, written as (file, old, new)). Run from /verif:
  python3 selftest/mkmutants.py
The patches are applied to /repo one at a time by selftest/run.sh and reverted."""
import os, subprocess, sys, tempfile, shutil
REPO = "/repo"
OUT = os.path.join(os.path.dirname(os.path.abspath(__file__)), "mutants")

M = [
 # name, expected-to-fire checks, file, old, new
 ("c01_len125_ge", "C01 C02", "conn.go", "case length > 125:", "case length >= 125:"),
 ("c01_len65536_gt", "C01 C02", "conn.go", "case length >= 65536:", "case length > 65536:"),
 ("c01_direct_threshold", "C01 C02", "conn.go", "if len(p) > 2*len(w.c.writeBuf) && w.c.isServer {", "if len(p) > 2*len(w.c.writeBuf) && w.c.isServer {\n		w.pos = maxFrameHeaderSize"),
 ("c01_trunc_short", "C01 C02 C15", "compression.go", "	copy(w.p[:], w.p[m:])\n	copy(w.p[len(w.p)-m:], p[len(p)-m:])", "	copy(w.p[:], w.p[m:])\n	if m > 1 {\n		copy(w.p[len(w.p)-m:], p[len(p)-m:])\n	}"),
 ("c01_mask_word", "C01 C03", "mask.go", "	for i := range k {\n		k[i] = key[(pos+i)&3]\n	}", "	for i := range k {\n		k[i] = key[(pos+i+(len(b)>>12))&3]\n	}"),
 ("c03_mask_overrun", "C03 C01", "mask.go", "	n := (len(b) / wordSize) * wordSize\n	for i := 0; i < n; i += wordSize {", "	n := (len(b) / wordSize) * wordSize\n	if len(b)%wordSize == 5 {\n		n += wordSize\n	}\n	for i := 0; i < n; i += wordSize {"),
 ("c02_rsv1_every_frame", "C02", "conn.go", "	w.compress = false\n\n	b1 := byte(0)", "	b1 := byte(0)"),
 ("c02_mask_per_conn", "C02", "conn.go", "func newMaskKey() [4]byte {\n	var k [4]byte\n	_, _ = io.ReadFull(maskRand, k[:])\n	return k\n}", "var lastKey [4]byte\nvar lastKeyN int\n\nfunc newMaskKey() [4]byte {\n	if lastKeyN%64 != 0 {\n		lastKeyN++\n		return lastKey\n	}\n	lastKeyN++\n	_, _ = io.ReadFull(maskRand, lastKey[:])\n	return lastKey\n}"),
 ("c03_maskpos", "C03 C01", "conn.go", "				c.readMaskPos = maskBytes(c.readMaskKey, c.readMaskPos, b[:n])", "				maskBytes(c.readMaskKey, c.readMaskPos, b[:n])\n				c.readMaskPos += n & 1"),
 ("c03_stale_reader", "C03", "conn.go", "	if c.messageReader != r {\n		return 0, io.EOF\n	}", "	if c.messageReader == nil {\n		return 0, io.EOF\n	}"),
 ("c04_rsv3", "C04", "conn.go", "	if rsv3 {\n		errors = append(errors, \"RSV3 set\")\n	}", "	if rsv3 && rsv2 {\n		errors = append(errors, \"RSV3 set\")\n	}"),
 ("c04_ctl_len", "C04", "conn.go", "		if c.readRemaining > maxControlFramePayloadSize {", "		if c.readRemaining > maxControlFramePayloadSize+1 {"),
 ("c04_cont_after_fin", "C04", "conn.go", "		if c.readFinal {\n			errors = append(errors, \"continuation after FIN\")\n		}", "		if c.readFinal && !final {\n			errors = append(errors, \"continuation after FIN\")\n		}"),
 ("c04_close_code", "C04", "conn.go", "	return validReceivedCloseCodes[code] || (code >= 3000 && code <= 4999)", "	return validReceivedCloseCodes[code] || (code >= 2999 && code <= 4999)"),
 ("c04_utf8", "C04", "conn.go", "			if !utf8.ValidString(closeText) {", "			if len(closeText) < 100 && !utf8.ValidString(closeText) {"),
 ("c04_no1002", "C04", "conn.go", "	// Make a best effor to send a close message describing the problem.\n	_ = c.WriteControl(CloseMessage, data, time.Now().Add(writeWait))\n	return errors.New(\"websocket: \" + message)", "	if len(message) < 40 {\n		_ = c.WriteControl(CloseMessage, data, time.Now().Add(writeWait))\n	}\n	return errors.New(\"websocket: \" + message)"),
 ("c05_not_sticky", "C05 C04", "conn.go", "	for c.readErr == nil {\n		frameType, err := c.advanceFrame()\n		if err != nil {\n			c.readErr = err\n			break\n		}\n\n		if frameType == TextMessage", "	for c.readErr == nil {\n		frameType, err := c.advanceFrame()\n		if err != nil {\n			if ne, ok := err.(net.Error); ok && ne.Timeout() {\n				return noFrame, nil, err\n			}\n			c.readErr = err\n			break\n		}\n\n		if frameType == TextMessage"),
 ("c06_gt_ge", "C06", "conn.go", "		if c.readLimit > 0 && c.readLength > c.readLimit {", "		if c.readLimit > 0 && c.readLength >= c.readLimit {"),
 ("c06_no1009", "C06", "conn.go", "			_ = c.WriteControl(CloseMessage, FormatCloseMessage(CloseMessageTooBig, \"\"), time.Now().Add(writeWait))\n			return noFrame, ErrReadLimit", "			if frameType != continuationFrame {\n				_ = c.WriteControl(CloseMessage, FormatCloseMessage(CloseMessageTooBig, \"\"), time.Now().Add(writeWait))\n			}\n			return noFrame, ErrReadLimit"),
 ("c06_overflow_guard", "C06", "conn.go", "		if c.readLength < 0 {\n			return noFrame, ErrReadLimit\n		}", ""),
 ("c08_pong_trunc", "C08", "conn.go", "			_ = c.WriteControl(PongMessage, []byte(message), time.Now().Add(writeWait))", "			if len(message) > 124 {\n				message = message[:124]\n			}\n			_ = c.WriteControl(PongMessage, []byte(message), time.Now().Add(writeWait))"),
 ("c08_close_echo_1000", "C08", "conn.go", "			message := FormatCloseMessage(code, \"\")", "			if code >= 4000 {\n				code = CloseNormalClosure\n			}\n			message := FormatCloseMessage(code, \"\")"),
 ("c08_unmask_ctl", "C08", "conn.go", "		if c.isServer {\n			maskBytes(c.readMaskKey, 0, payload)\n		}", "		if c.isServer && len(payload) != 125 {\n			maskBytes(c.readMaskKey, 0, payload)\n		}"),
 ("c09_write_recheck", "C09 C11", "conn.go", "	<-c.mu\n	defer func() { c.mu <- struct{}{} }()\n\n	c.writeErrMu.Lock()\n	err := c.writeErr\n	c.writeErrMu.Unlock()\n	if err != nil {\n		return err\n	}\n\n	if err := c.conn.SetWriteDeadline(deadline); err != nil {\n		return c.writeFatal(err)\n	}\n	if len(buf1) == 0 {", "	c.writeErrMu.Lock()\n	err := c.writeErr\n	c.writeErrMu.Unlock()\n	if err != nil {\n		return err\n	}\n\n	<-c.mu\n	defer func() { c.mu <- struct{}{} }()\n\n	if err := c.conn.SetWriteDeadline(deadline); err != nil {\n		return c.writeFatal(err)\n	}\n	if len(buf1) == 0 {"),
 ("c09_prepared_close", "C09 C19", "conn.go", "	if frameType == CloseMessage {\n		_ = c.writeFatal(ErrCloseSent)\n	}\n	return nil\n}", "	if frameType == CloseMessage && len(buf1) == 0 && len(buf0) < 40 {\n		_ = c.writeFatal(ErrCloseSent)\n	}\n	return nil\n}"),
 ("c10_deadline_zero_skipped", "C10", "conn.go", "	if err := c.conn.SetWriteDeadline(deadline); err != nil {\n		return c.writeFatal(err)\n	}\n	if len(buf1) == 0 {", "	if !deadline.IsZero() {\n		if err := c.conn.SetWriteDeadline(deadline); err != nil {\n			return c.writeFatal(err)\n		}\n	}\n	if len(buf1) == 0 {"),
 ("c10_wc_conn_deadline", "C10", "conn.go", "	if err := c.conn.SetWriteDeadline(deadline); err != nil {\n		return c.writeFatal(err)\n	}\n	if _, err = c.conn.Write(buf); err != nil {", "	if deadline.IsZero() {\n		deadline = c.writeDeadline\n	}\n	if err := c.conn.SetWriteDeadline(deadline); err != nil {\n		return c.writeFatal(err)\n	}\n	if _, err = c.conn.Write(buf); err != nil {"),
 ("c10_nofatal_on_deadline_err", "C10", "conn.go", "	if err := c.conn.SetWriteDeadline(deadline); err != nil {\n		return c.writeFatal(err)\n	}\n	if _, err = c.conn.Write(buf); err != nil {", "	if err := c.conn.SetWriteDeadline(deadline); err != nil {\n		return err\n	}\n	if _, err = c.conn.Write(buf); err != nil {"),
 ("c10_invalid_poisons", "C10", "conn.go", "	if isControl(w.frameType) &&\n		(!final || length > maxControlFramePayloadSize) {\n		return w.endMessage(errInvalidControlFrame)\n	}", "	if isControl(w.frameType) &&\n		(!final || length > maxControlFramePayloadSize) {\n		return w.endMessage(c.writeFatal(errInvalidControlFrame))\n	}"),
 ("c11_wc_no_timer", "C11", "conn.go", "			case <-timer.C:\n				return errWriteTimeout", "			case <-timer.C:\n				<-c.mu"),
 ("c11_timeout_poisons", "C11", "conn.go", "			case <-timer.C:\n				return errWriteTimeout", "			case <-timer.C:\n				return c.writeFatal(errWriteTimeout)"),
 ("c11_unlock_between_bufs", "C11 C09", "conn.go", "func (c *Conn) writeBufs(bufs ...[]byte) error {\n	b := net.Buffers(bufs)\n	_, err := b.WriteTo(c.conn)\n	return err\n}", "func (c *Conn) writeBufs(bufs ...[]byte) error {\n	_, err := c.conn.Write(bufs[0])\n	if err != nil {\n		return err\n	}\n	c.mu <- struct{}{}\n	<-c.mu\n	_, err = c.conn.Write(bufs[1])\n	return err\n}"),
 ("c09_flag_async", "C09 C11", "conn.go", "	if messageType == CloseMessage {\n		_ = c.writeFatal(ErrCloseSent)\n	}\n	return err\n}", "	if messageType == CloseMessage {\n		go c.writeFatal(ErrCloseSent)\n	}\n	return err\n}"),
 ("c11_race_writeerr", "C11", "conn.go", "	c.writeErrMu.Lock()\n	err := c.writeErr\n	c.writeErrMu.Unlock()\n	if err != nil {\n		return err\n	}\n\n	mw.c = c", "	err := c.writeErr\n	if err != nil {\n		return err\n	}\n\n	mw.c = c"),
 ("c11_race_prepared", "C11", "prepared.go", "	pm.mu.Lock()\n	frame, ok := pm.frames[key]\n	if !ok {", "	if f, ok := pm.frames[key]; ok && f.data != nil {\n		return pm.messageType, f.data, nil\n	}\n	pm.mu.Lock()\n	frame, ok := pm.frames[key]\n	if !ok {"),
 ("c12_version", "C12", "server.go", "	if !tokenListContainsValue(r.Header, \"Sec-Websocket-Version\", \"13\") {", "	if r.Header.Get(\"Sec-Websocket-Version\") == \"\" {"),
 ("c12_key_len", "C12", "util.go", "	return err == nil && len(decoded) == 16", "	return err == nil && len(decoded) >= 16"),
 ("c12_scrub_cr", "C12", "server.go", "				if b <= 31 {\n					// prevent response splitting.\n					b = ' '\n				}\n				p = append(p, b)\n			}\n			p = append(p, \"\\r\\n\"...)\n		}", "				if b <= 31 && b != '\\r' {\n					// prevent response splitting.\n					b = ' '\n				}\n				p = append(p, b)\n			}\n			p = append(p, \"\\r\\n\"...)\n		}"),
 ("c12_426_no_header", "C12", "server.go", "		w.Header().Set(\"Upgrade\", \"websocket\")\n", ""),
 ("c12_subproto_server_pref", "C12", "server.go", "				if clientProtocol == serverProtocol {\n					return clientProtocol\n				}", "				if clientProtocol == serverProtocol {\n					return clientProtocol\n				}\n				if len(clientProtocols) > 2 {\n					return serverProtocol\n				}"),
 ("c13_equalfold", "C13", "server.go", "	return equalASCIIFold(u.Host, r.Host)", "	return strings.EqualFold(u.Host, r.Host)"),
 ("c13_hostname", "C13", "server.go", "	return equalASCIIFold(u.Host, r.Host)", "	return equalASCIIFold(u.Hostname(), strings.SplitN(r.Host, \":\", 2)[0]) || equalASCIIFold(u.Host, r.Host)"),
 ("c13_parse_error", "C13", "server.go", "	if err != nil {\n		return false\n	}\n	return equalASCIIFold", "	if err != nil {\n		return strings.HasSuffix(origin[0], r.Host)\n	}\n	return equalASCIIFold"),
 ("c14_accept", "C14", "client.go", "		resp.Header.Get(\"Sec-Websocket-Accept\") != computeAcceptKey(challengeKey) {", "		len(resp.Header.Get(\"Sec-Websocket-Accept\")) != len(computeAcceptKey(challengeKey)) {"),
 ("c14_conn_check", "C14", "client.go", "		!tokenListContainsValue(resp.Header, \"Connection\", \"upgrade\") ||\n", ""),
 ("c14_userinfo", "C14", "client.go", "	if u.User != nil {", "	if u.User != nil && u.User.Username() != \"\" {"),
 ("c14_forbidden_ext", "C14", "client.go", "			k == \"Sec-Websocket-Extensions\" ||\n", ""),
 ("c14_body_limit", "C14", "client.go", "		buf := make([]byte, 1024)\n		n, _ := io.ReadFull(resp.Body, buf)", "		buf := make([]byte, 1025)\n		n, _ := io.ReadFull(resp.Body, buf)"),
 ("c15_one_param", "C15", "client.go", "		if !snct || !cnct {", "		if !snct && !cnct {"),
 ("c15_server_no_offer", "C15 C12", "server.go", "			if ext[\"\"] != \"permessage-deflate\" {\n				continue\n			}\n			compress = true\n			break", "			if ext[\"\"] != \"permessage-deflate\" && ext[\"\"] != \"x-webkit-deflate-frame\" {\n				continue\n			}\n			compress = true\n			break"),
 ("c16_no_final_deadline", "C16", "client.go", "	if err := netConn.SetDeadline(time.Time{}); err != nil {\n		return nil, resp, err\n	}", "	if d.HandshakeTimeout == 0 {\n		if err := netConn.SetDeadline(time.Time{}); err != nil {\n			return nil, resp, err\n		}\n	}"),
 ("c16_proxy_no_close", "C16", "proxy.go", "	if resp.StatusCode != http.StatusOK {\n		_ = conn.Close()", "	if resp.StatusCode != http.StatusOK {"),
 ("c16_deadline_not_with_proxy", "C16", "client.go", "	if deadline, ok := ctx.Deadline(); ok {\n		netDial = netDialWithDeadline(netDial, deadline)\n	}", "	if deadline, ok := ctx.Deadline(); ok && proxyURL == nil {\n		netDial = netDialWithDeadline(netDial, deadline)\n	}"),
 ("c16_upgrade_leak", "C16", "server.go", "	if _, err = netConn.Write(p); err != nil {\n		return nil, err\n	}", "	if _, err = netConn.Write(p); err != nil {\n		netConn = nil\n		return nil, err\n	}"),
 ("c17_reuse_threshold", "C17", "server.go", "	} else if brw.Reader.Buffered() > 0 {", "	} else if brw.Reader.Buffered() > 1 {"),
 ("c18_servername", "C18", "client.go", "		cfg := cloneTLSConfig(d.TLSClientConfig)\n		if cfg.ServerName == \"\" {\n			cfg.ServerName = hostNoPort\n		}\n		tlsConn := tls.Client(netConn, cfg)", "		cfg := cloneTLSConfig(d.TLSClientConfig)\n		if cfg.ServerName == \"\" {\n			cfg.ServerName = hostNoPort\n		}\n		cfg.InsecureSkipVerify = true\n		tlsConn := tls.Client(netConn, cfg)"),
 ("c18_auth_user_only", "C18", "proxy.go", "		if proxyPassword, passwordSet := user.Password(); passwordSet {", "		if proxyPassword, _ := user.Password(); true {"),
 ("c02_rsv1_disabled", "C19", "conn.go", "	if c.newCompressionWriter != nil && c.enableWriteCompression && isData(messageType) {\n		w := c.newCompressionWriter(c.writer, c.compressionLevel)", "	if c.newCompressionWriter != nil && isData(messageType) {\n		w := c.newCompressionWriter(c.writer, c.compressionLevel)"),
 ("c05_sticky_eof_only", "C05", "conn.go", "\t\t\tn, err := c.br.Read(b)\n\t\t\tc.readErr = err", "\t\t\tn, err := c.br.Read(b)\n\t\t\tif err != nil && err != io.EOF && n > 0 {\n\t\t\t\terr = nil\n\t\t\t}\n\t\t\tc.readErr = err"),
 ("c17_client_br_discard", "C17", "client.go", "	resp.Body = io.NopCloser(bytes.NewReader([]byte{}))\n	conn.subprotocol", "	if conn.br.Buffered() > 0 && conn.br.Buffered() < 3 {\n		conn.br.Discard(1)\n	}\n	resp.Body = io.NopCloser(bytes.NewReader([]byte{}))\n	conn.subprotocol"),
 ("c18_tunnel_tls_skipped_for_ip", "C18", "client.go", "	if proxyURL != nil && u.Scheme == \"https\" {\n", "	if proxyURL != nil && u.Scheme == \"https\" && !strings.HasPrefix(u.Host, \"[\") {\n"),
 ("c19_key_no_compress", "C19", "conn.go", "		compress:         c.newCompressionWriter != nil && c.enableWriteCompression && isData(pm.messageType),", "		compress:         c.newCompressionWriter != nil && isData(pm.messageType),"),
 ("c19_alias", "C19", "prepared.go", "	pm.data = frameData[len(frameData)-len(data):]", "	if len(data) < 4096 {\n		pm.data = frameData[len(frameData)-len(data):]\n	}"),
 ("c20_put_before_write", "C20", "conn.go", "	err := c.write(w.frameType, c.writeDeadline, c.writeBuf[framePos:w.pos], extra)\n\n	if !c.isWriting {", "	buf := c.writeBuf\n	if final && c.writePool != nil && len(extra) > 0 {\n		c.writePool.Put(writePoolData{buf: c.writeBuf})\n		c.writeBuf = nil\n	}\n	err := c.write(w.frameType, c.writeDeadline, buf[framePos:w.pos], extra)\n	if final && c.writePool != nil && len(extra) > 0 {\n		c.writePool = nil\n	}\n\n	if !c.isWriting {"),
 ("c20_no_put_on_error", "C20", "conn.go", "	if err != nil {\n		return w.endMessage(err)\n	}\n\n	if final {", "	if err != nil {\n		w.err = err\n		c.writer = nil\n		return err\n	}\n\n	if final {"),
]

def main():
    os.makedirs(OUT, exist_ok=True)
    for f in os.listdir(OUT):
        os.remove(os.path.join(OUT, f))
    idx = []
    for name, checks, fn, old, new in M:
        src = open(os.path.join(REPO, fn)).read()
        if src.count(old) < 1:
            print("MUTANT %s: pattern not found in %s" % (name, fn)); sys.exit(1)
        mutated = src.replace(old, new, 1)
        with tempfile.TemporaryDirectory() as td:
            a = os.path.join(td, "a", fn); b = os.path.join(td, "b", fn)
            os.makedirs(os.path.dirname(a)); os.makedirs(os.path.dirname(b))
            open(a, "w").write(src); open(b, "w").write(mutated)
            r = subprocess.run(["diff", "-u", "a/" + fn, "b/" + fn], cwd=td, capture_output=True, text=True)
            open(os.path.join(OUT, name + ".diff"), "w").write(r.stdout)
        idx.append("%s %s" % (name, checks))
    open(os.path.join(OUT, "INDEX"), "w").write("\n".join(idx) + "\n")
    print(len(M), "mutants written")

if __name__ == "__main__":
    main()
