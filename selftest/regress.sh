#!/bin/bash
# selftest/regress.sh [regex]  - re-runs the quick check of every kept seeded change
# (seeded/<id>/patch.diff applied to /repo, check run, /repo restored) without
# re-confirming suite/demo; prints one line per change and a summary. Expected: rc=1 for all
# (owned by a neighbouring check, which is run instead: C02-c by C11, C02-d by C10, C01-g and C01-i
# by C03, C01-h by C08, C01-j by C11, C15-i by C06, C17-j by C16, C03-l by C15, C07-k and C07-m by C16, C08-l by C03, C01-n by C03, C02-m by C10, C02-n by C19, C08-n by C16, C01-o by C11, C15-o by C19; C04-g and C20-g are outside what
# their property demands (DESIGN 13.1): rc=0 expected).
cd "$(dirname "$0")/.."
export GOFLAGS=-mod=mod GOPROXY=off GOSUMDB=off GOTOOLCHAIN=local
re="${1:-.}"
if [ -n "$(git -C /repo status --porcelain --untracked-files=no)" ]; then echo "/repo has uncommitted changes; refusing" >&2; exit 2; fi
trap 'git -C /repo checkout -q -- .' EXIT
miss=0; n=0
for d in seeded/*/; do
  id=$(basename "$d"); [[ "$id" =~ $re ]] || continue
  prop=${id%%-*}; chk=$prop
  want=1
  case "$id" in
    C02-c) chk=C11;; C02-d) chk=C10;; C01-g|C01-i) chk=C03;; C01-h) chk=C08;; C01-j) chk=C11;;
    C15-i) chk=C06;; C17-j) chk=C16;; C03-l) chk=C15;; C07-k|C07-m) chk=C16;; C08-l|C01-n) chk=C03;; C02-m) chk=C10;; C02-n) chk=C19;; C08-n) chk=C16;;
    C01-o) chk=C11;; C15-o) chk=C19;;
    C04-g|C20-g) want=0;;
  esac
  git -C /repo apply "$PWD/$d/patch.diff" || { echo "$id patch does not apply"; miss=$((miss+1)); continue; }
  # the plain build first (fast); the full set of build variants only if that did not decide
  out=$(WSVERIF_ONLY_VARIANTS=plain ./check.sh "$chk" quick 2>&1); rc=$?
  if [ $rc -ne $want ]; then out=$(./check.sh "$chk" quick 2>&1); rc=$?; fi
  git -C /repo checkout -q -- .
  sig=$(echo "$out" | grep -m2 "violation signature" | sed 's/.*violation signature //' | tr '\n' ';')
  echo "$id $chk rc=$rc (expected $want) $sig"
  n=$((n+1)); [ $rc -eq $want ] || miss=$((miss+1))
done
echo "SUMMARY changes=$n unexpected=$miss"
