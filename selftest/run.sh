#!/bin/bash
# selftest/run.sh [name-pattern]   applies each mutant patch to /repo (git apply), runs the
# library's own test suite (must still pass), runs the checks expected to fire (and optionally
# all others with ALL=1), and restores /repo. Results: selftest/results.txt
# NOTE: modifies /repo's working tree temporarily; never run concurrently with other checks.
cd "$(dirname "$0")/.."
export GOFLAGS=-mod=mod GOPROXY=off GOSUMDB=off GOTOOLCHAIN=local
pat="${1:-.}"
restore() { git -C /repo checkout -q -- . ; }
trap restore EXIT
if [ -n "$(git -C /repo status --porcelain --untracked-files=no)" ]; then echo "/repo has uncommitted changes; refusing" >&2; exit 2; fi
: > selftest/results.tmp
while read -r name checks; do
  [[ "$name" =~ $pat ]] || continue
  patch="selftest/mutants/$name.diff"
  if ! git -C /repo apply "$PWD/$patch" 2>/dev/null; then echo "$name APPLY-FAILED" | tee -a selftest/results.tmp; continue; fi
  if ! (cd /repo && go build ./... && go vet . ) >/dev/null 2>&1; then echo "$name DOES-NOT-BUILD" | tee -a selftest/results.tmp; restore; continue; fi
  suite=SUITE-FAILS; for try in 1 2 3; do if (cd /repo && timeout 120 go test -count=1 . >/dev/null 2>&1); then suite=suite-pass; break; fi; done
  line="$name $suite"
  list="$checks"
  [ -n "${ALL:-}" ] && list="C01 C02 C03 C04 C05 C06 C07 C08 C09 C10 C11 C12 C13 C14 C15 C16 C17 C18 C19 C20"
  for c in $list; do
    out=$(./check.sh "$c" quick 2>&1); rc=$?
    sig=$(echo "$out" | grep -m1 "violation signature" | sed 's/.*violation signature //')
    exp=""; [[ " $checks " == *" $c "* ]] && exp="*"
    line="$line | $c$exp rc=$rc $sig"
  done
  echo "$line" | tee -a selftest/results.tmp
  restore
done < selftest/mutants/INDEX
python3 - <<'PY'
import os
res="selftest/results.txt"
d={}
order=[]
if os.path.exists(res):
    for l in open(res):
        if " | " in l:
            n=l.split()[0]; d[n]=l.rstrip("\n"); order.append(n)
for l in open("selftest/results.tmp"):
    if " " in l:
        n=l.split()[0]
        if n not in d: order.append(n)
        d[n]=l.rstrip("\n")
open(res,"w").write("# one line per mutant: name, library suite outcome, then per check rc and first violation signature (* = expected to fire)\n"+"\n".join(d[n] for n in order)+"\n")
PY
rm -f selftest/results.tmp
