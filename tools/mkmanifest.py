#!/usr/bin/env python3
"""Regenerates /verif/MANIFEST.json from the table below (kept in one place so the
manifest is always valid). Run: python3 tools/mkmanifest.py"""
import json, os, subprocess
ROOT = os.path.dirname(os.path.dirname(os.path.abspath(__file__)))

CHECKS = {
 # id: (category, technique, level text, level note, design ref)
 "C01": ("exploration", "runtime monitoring: generated write/read programs executed on real Conns, round-trip oracle vs. the sent list; ASan + checkptr builds on a subset",
         "Seeded exploration of (config, write program, chunking, read program); every case is executed on the real library and the delivered messages are compared with the sent list. Held = held on the cases executed (counts in the evidence).",
         "connections built through the verif hook VerifNewConn; standard library; the harness's sent-list bookkeeping", "3/C01"),
 "C02": ("exploration", "runtime monitoring: transport write log decoded by an independent RFC 6455/7692 decoder; mask-key conservation against a tap on the random source",
         "Seeded exploration of write programs; the bytes reaching the transport are judged by a frame decoder and sequence validator written from the RFC, and each client mask key must be a fresh 4-byte draw from crypto/rand (tap).",
         "independent decoder internal/wire; stdlib compress/flate inflater; crypto/rand quality trusted", "3/C02"),
}

PENDING_REASON = "monitor not built yet in this round (planned, see DESIGN.md section 9); no claim is made"

def main():
    props = [json.loads(l) for l in open(os.path.join(ROOT, "properties.jsonl"))]
    hooks_commits = subprocess.run(["git", "-C", "/repo", "log", "--format=%H", "--grep=^verif:"], capture_output=True, text=True).stdout.split()
    m = {
        "version": 1,
        "setup_cmd": "./setup.sh",
        "hooks": {
            "guard": "verif",
            "enable": "go build -tags verif (harness module /verif with `replace github.com/gorilla/websocket => /repo`); the only hook file is /repo/verif_hooks.go (//go:build verif)",
            "baseline_off_cmd": "cd /repo && GOFLAGS=-mod=mod GOPROXY=off GOSUMDB=off GOTOOLCHAIN=local go test -json -vet=off -count=1 -timeout 25m ./...",
            "source_commits": hooks_commits,
            "add_only": True,
        },
        "engines": [
            {"name": "wsverif", "path": "cmd/wsverif", "serves_properties": sorted(CHECKS), "kind_free_text": "Go runner+worker binary: seeded case generation, child-process workers, monitors over scripted net.Conn / handler / pool / mask-source logs, independent RFC codec, evidence writer; built per variant (plain, race, asan, checkptr) from /repo's working tree on every invocation"},
        ],
        "checks": [],
        "not_applicable": [],
        "notes": "All checks: ./check.sh <id> <tier>; exit 0 held on everything explored, exit 1 + VIOLATION line, exit 2 infrastructure/harness fault. VERIF_SEED selects the case list. Known findings: known_findings.json.",
    }
    for p in props:
        pid = p["id"]
        if pid in CHECKS:
            cat, tech, text, note, ref = CHECKS[pid]
            m["checks"].append({
                "property_id": pid,
                "quick_cmd": f"./check.sh {pid} quick",
                "thorough_cmd": f"./check.sh {pid} thorough",
                "evidence_file": f"/verif/evidence/{pid}.json",
                "replay_cmd_template": "./check.sh replay {path}",
                "engine": "wsverif",
                "level_claimed": {"category": cat, "text": text, "design_ref": "DESIGN.md section " + ref},
                "level_note": note,
                "technique": tech,
            })
        else:
            m["not_applicable"].append({"property_id": pid, "reason": PENDING_REASON})
    with open(os.path.join(ROOT, "MANIFEST.json"), "w") as f:
        json.dump(m, f, indent=1)
        f.write("\n")
    with open(os.path.join(ROOT, "MANIFEST.hooks"), "w") as f:
        f.write("guard: Go build tag `verif`\n")
        f.write("files: /repo/verif_hooks.go (//go:build verif; add-only, touches no existing line)\n")
        f.write("exports: VerifNewConn, VerifMaskRand, VerifSetMaskRand, VerifPoolBuf, VerifPoolValue\n")
        f.write("commits:\n")
        for c in hooks_commits:
            f.write("  " + c + "\n")
        f.write("guard off: `go test ./...` in /repo does not compile the file; the 80-test baseline is unaffected\n")

if __name__ == "__main__":
    main()
