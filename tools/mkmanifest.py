#!/usr/bin/env python3
"""Regenerates /verif/MANIFEST.json from the table below (kept in one place so the
manifest is always valid). Run: python3 tools/mkmanifest.py"""
import json, os, subprocess
ROOT = os.path.dirname(os.path.dirname(os.path.abspath(__file__)))

CHECKS = {
 # id: (category, technique, level text, level note, design ref)
 "C01": ("exploration", "runtime monitoring: generated write/read programs executed on real Conns, round-trip oracle vs. the sent list; ASan + checkptr builds on a subset",
         "Seeded exploration of (config, write program, chunking, read program); every case is executed on the real library and the delivered messages are compared with the sent list. Held = held on the cases executed (counts in the evidence).",
         "connections built through the verif hook VerifNewConn; standard library; the harness's sent-list bookkeeping", "3/C01"),
 "C02": ("exploration", "runtime monitoring: transport write log decoded by an independent RFC 6455/7692 decoder; mask-key conservation against a tap on the random source",
         "Seeded exploration of write programs; the bytes reaching the transport are judged by a frame decoder and sequence validator written from the RFC, and each client mask key must be a fresh 4-byte draw from crypto/rand (tap).",
         "independent decoder internal/wire; stdlib compress/flate inflater; crypto/rand quality trusted", "3/C02"),
 "C03": ("exploration", "runtime monitoring: conformant peer streams from an independent encoder (own DEFLATE encoder + zlib via python3) fed to real Conns; delivered messages vs. encoded messages; ASan + checkptr on unmasking into application slices",
         "Seeded exploration of conformant streams x (read buffer, chunking, read program incl. abandon/Join); the oracle is the message list the independent encoder encoded. Sanitizer builds enumerate alignment x length x mask offset of the unsafe unmasking path.",
         "independent encoder internal/wire + internal/zflate; zlib 1.2.13 through python3 as foreign deflater/inflater (admission gate); stdlib inflater", "3/C03"),
 "C04": ("exploration", "runtime monitoring: complete enumeration of the next-frame header alphabet in 6 protocol histories, classified by an independent receiver model, executed on real Conns",
         "Every (history, role, compression, opcode, FIN, RSV1-3, MASK, length class) cell and 57 close bodies per state are executed; VIOLATION cells must fail-stop with sticky error and a 1002 close, LEGAL cells must be delivered, UNSPECIFIED cells only must not panic. Exhaustive at that abstraction.",
         "receiver model written from RFC 6455/7692 (internal/props/c04.go classify); length classes and histories stand for all lengths/histories", "3/C04"),
 "C05": ("fault_enumeration", "runtime monitoring with fault injection: every cut offset x 6 fault kinds on generated streams, scripted transport, lower<=complete<=upper oracle and sticky-error check",
         "For each generated stream every byte offset and every way an io.Reader may report the failure is injected; the number of messages reported complete must lie between what had arrived before the failing read and what the cut contains, each byte-identical, then a permanent error.",
         "streams/chunkings/read programs sampled; cut offsets x fault kinds exhaustive per stream; DEFLATE BFINAL early completion is not judged", "3/C05"),
 "C06": ("exploration", "runtime monitoring: limit model over generated histories and fragmentations, decoded 1009 close, heap-allocation counter probe",
         "Seeded exploration of (L, read history, target size around L / huge claimed lengths, crossing frame, controls, chunking); within-limit messages must be readable whatever the history, over-limit ones refused before the crossing frame's payload with ErrReadLimit + 1009; allocation must not grow with the claimed length.",
         "limit counted in wire payload bytes; runtime.MemStats.TotalAlloc as allocation counter", "3/C06"),
 "C08": ("exploration", "runtime monitoring: handler/data event log with one counter vs. wire order of an independently encoded stream; decoded pong/close echoes; complete enumeration of acceptable close codes",
         "All 2009 acceptable close codes x reason lengths x roles are enumerated; seeded streams put control frames at every kind of position; handler calls must match the wire exactly once, in order, correctly placed relative to delivered bytes; echoes decoded from the write log; handler errors permanent.",
         "single-goroutine executions so best-effort echoes are deterministic", "3/C08"),
 "C17": ("exploration", "runtime monitoring: every split of a frame stream across the handshake boundary through the real Upgrader.Upgrade (fake Hijacker) and Dialer.Dial (scripted conn)",
         "For each generated stream every split between hijacked buffer and socket x 6 hijacked reader sizes x 6 ReadBufferSizes (server) and every cut of '101 + frames' (client) is executed; the messages read must equal the messages encoded.",
         "fake http.Hijacker over the scripted conn; streams sampled, splits exhaustive", "3/C17"),
}

PENDING_REASON = "monitor not built yet in this round (planned, see DESIGN.md section 9); no claim is made"

def main():
    props = [json.loads(l) for l in open(os.path.join(ROOT, "properties.jsonl"))]
    hooks_commits = subprocess.run(["git", "-C", "/repo", "log", "--format=%H", "--grep=^verif:"], capture_output=True, text=True).stdout.split()
    m = {
        "version": 1,
        "setup_cmd": "./setup.sh",
        "hooks": {
            "guard": "verif",
            "enable": "go build -tags verif (harness module /verif with `replace github.com/gorilla/websocket => /repo`); the only hook file is /repo/verif_hooks.go (//go:build verif)",
            "baseline_off_cmd": "cd /repo && GOFLAGS=-mod=mod GOPROXY=off GOSUMDB=off GOTOOLCHAIN=local go test -json -vet=off -count=1 -timeout 25m ./...",
            "source_commits": hooks_commits,
            "add_only": True,
        },
        "engines": [
            {"name": "wsverif", "path": "cmd/wsverif", "serves_properties": sorted(CHECKS), "kind_free_text": "Go runner+worker binary: seeded case generation, child-process workers, monitors over scripted net.Conn / handler / pool / mask-source logs, independent RFC codec, evidence writer; built per variant (plain, race, asan, checkptr) from /repo's working tree on every invocation"},
        ],
        "checks": [],
        "not_applicable": [],
        "notes": "All checks: ./check.sh <id> <tier>; exit 0 held on everything explored, exit 1 + VIOLATION line, exit 2 infrastructure/harness fault. VERIF_SEED selects the case list. Known findings: known_findings.json.",
    }
    for p in props:
        pid = p["id"]
        if pid in CHECKS:
            cat, tech, text, note, ref = CHECKS[pid]
            m["checks"].append({
                "property_id": pid,
                "quick_cmd": f"./check.sh {pid} quick",
                "thorough_cmd": f"./check.sh {pid} thorough",
                "evidence_file": f"/verif/evidence/{pid}.json",
                "replay_cmd_template": "./check.sh replay {path}",
                "engine": "wsverif",
                "level_claimed": {"category": cat, "text": text, "design_ref": "DESIGN.md section " + ref},
                "level_note": note,
                "technique": tech,
            })
        else:
            m["not_applicable"].append({"property_id": pid, "reason": PENDING_REASON})
    with open(os.path.join(ROOT, "MANIFEST.json"), "w") as f:
        json.dump(m, f, indent=1)
        f.write("\n")
    with open(os.path.join(ROOT, "MANIFEST.hooks"), "w") as f:
        f.write("guard: Go build tag `verif`\n")
        f.write("files: /repo/verif_hooks.go (//go:build verif; add-only, touches no existing line)\n")
        f.write("exports: VerifNewConn, VerifMaskRand, VerifSetMaskRand, VerifPoolBuf, VerifPoolValue\n")
        f.write("commits:\n")
        for c in hooks_commits:
            f.write("  " + c + "\n")
        f.write("guard off: `go test ./...` in /repo does not compile the file; the 80-test baseline is unaffected\n")

if __name__ == "__main__":
    main()
