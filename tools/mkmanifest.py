#!/usr/bin/env python3
"""Regenerates /verif/MANIFEST.json from the table below (kept in one place so the
manifest is always valid). Run: python3 tools/mkmanifest.py"""
import json, os, subprocess
ROOT = os.path.dirname(os.path.dirname(os.path.abspath(__file__)))

CHECKS = {
 # id: (category, technique, level text, level note, design ref)
 "C01": ("exploration", "runtime monitoring: generated write/read programs executed on real Conns, round-trip oracle vs. the sent list; ASan + checkptr builds on a subset",
         "Seeded exploration of (config, write program, chunking, read program); every case is executed on the real library and the delivered messages are compared with the sent list. Held = held on the cases executed (counts in the evidence).",
         "connections built through the verif hook VerifNewConn; standard library; the harness's sent-list bookkeeping", "3/C01"),
 "C02": ("exploration", "runtime monitoring: transport write log decoded by an independent RFC 6455/7692 decoder; mask-key conservation against a tap on the random source",
         "Seeded exploration of write programs; the bytes reaching the transport are judged by a frame decoder and sequence validator written from the RFC, and each client mask key must be a fresh 4-byte draw from crypto/rand (tap).",
         "independent decoder internal/wire; stdlib compress/flate inflater; crypto/rand quality trusted", "3/C02"),
 "C03": ("exploration", "runtime monitoring: conformant peer streams from an independent encoder (own DEFLATE encoder + zlib via python3) fed to real Conns; delivered messages vs. encoded messages; ASan + checkptr on unmasking into application slices",
         "Seeded exploration of conformant streams x (read buffer, chunking, read program incl. abandon/Join); the oracle is the message list the independent encoder encoded. Sanitizer builds enumerate alignment x length x mask offset of the unsafe unmasking path.",
         "independent encoder internal/wire + internal/zflate; zlib 1.2.13 through python3 as foreign deflater/inflater (admission gate); stdlib inflater", "3/C03"),
 "C04": ("exploration", "runtime monitoring: complete enumeration of the next-frame header alphabet in 6 protocol histories, classified by an independent receiver model, executed on real Conns",
         "Every (history, role, compression, opcode, FIN, RSV1-3, MASK, length class) cell (122 880) and 57 close bodies per state are executed; VIOLATION cells must fail-stop with sticky error and a 1002 close, LEGAL cells must be delivered, UNSPECIFIED cells only must not panic (exhaustive at that abstraction). A seeded family adds generated conformant prefixes + one violating frame under random buffer sizes, chunkings and read programs including abandoned messages.",
         "receiver model written from RFC 6455/7692 (internal/props/c04.go classify); length classes and histories stand for all lengths/histories", "3/C04"),
 "C05": ("fault_enumeration", "runtime monitoring with fault injection: every cut offset x 6 fault kinds on generated streams, scripted transport, lower<=complete<=upper oracle and sticky-error check",
         "For each generated stream every byte offset and every way an io.Reader may report the failure is injected (after transient faults the transport resumes delivering in half of the executions); the number of messages reported complete must lie between what had arrived before the failing read and what the cut contains, each byte-identical, then a permanent error; read through ReadMessage, NextReader (a failed reader is tried again) or JoinMessages; a family of 64 KiB - 1 MiB single-frame messages; failed connections polled up to the documented 999 calls.",
         "streams/chunkings/read programs sampled; cut offsets x fault kinds exhaustive per stream; DEFLATE BFINAL early completion is not judged", "3/C05"),
 "C06": ("exploration", "runtime monitoring: limit model over generated histories and fragmentations, decoded 1009 close, heap-allocation counter probe",
         "Seeded exploration of (L, read history, target size around L / huge claimed lengths / compressed targets whose wire size is around L, crossing frame, controls, chunking); within-limit messages must be readable whatever the history, over-limit ones refused before the crossing frame's payload with ErrReadLimit + 1009; allocation must not grow with the claimed length; the limit may have been absent or larger earlier on the connection or be re-set (same value) between messages and between Reads; a refused reader delivers nothing on retry; a crossing frame is refused although its payload never arrives; application close handlers never run on a breach.",
         "limit counted in wire payload bytes; runtime.MemStats.TotalAlloc as allocation counter", "3/C06"),
 "C08": ("exploration", "runtime monitoring: handler/data event log with one counter vs. wire order of an independently encoded stream; decoded pong/close echoes; complete enumeration of acceptable close codes",
         "All 2009 acceptable close codes x reason lengths x roles are enumerated; seeded streams put control frames at every kind of position; a concurrent family checks pong payloads while other goroutines use WriteControl; a third of the client-role executions build the connection with the real Dialer.Dial with the stream glued behind the 101 reply; a fifth run under a read limit every message meets exactly; read through NextReader, ReadMessage or JoinMessages; one stream in 25 carries a run of 100-1500 control frames; handler calls must match the wire exactly once, in order, correctly placed relative to delivered bytes; echoes decoded from the write log; handler errors permanent.",
         "single-goroutine executions so best-effort echoes are deterministic", "3/C08"),
 "C17": ("exploration", "runtime monitoring: every split of a frame stream across the handshake boundary through the real Upgrader.Upgrade (fake Hijacker) and Dialer.Dial (scripted conn)",
         "For each generated stream every split between hijacked buffer and socket x 6 hijacked reader sizes x 6 ReadBufferSizes (server) and every cut of '101 + frames' (client) is executed; the messages read must equal the messages encoded.",
         "fake http.Hijacker over the scripted conn; streams sampled, splits exhaustive", "3/C17"),
 "C07": ("exploration", "runtime monitoring: panic/process-death, read-after-exhaustion and watchdog hang detectors and a heap-allocation counter around four drivers fed by a structure-aware mutation generator; native Go coverage-guided fuzzing of the same drivers (thorough); ASan + checkptr replay",
         "Seeded mutation of valid frame streams, server replies, proxy replies and header values (quick 288k inputs, thorough 2.9M + 4 x 1.5M fuzz executions); streams are read by ReadMessage, NextReader (draining or abandoning after one Read), ReadJSON or JoinMessages, handlers default or reset with nil; any panic, runtime fatal, sanitizer report, hang (no execution finishing for 40 s, confirmed by an isolated re-run with library frames on the stack) or allocation beyond the calibrated bound is a violation.",
         "allocation measured by runtime.MemStats.TotalAlloc; fuzzing is the one non-deterministic explorer (budgeted in executions)", "3/C07"),
 "C09": ("exploration", "runtime monitoring: close sent at every step boundary of generated write programs through 7 paths, write log decoded (nothing after the close), API results checked; gated concurrent scenario with recorded call/return history checked by porcupine against a sequential model",
         "Every close position x 7 close paths per generated program is executed; in the concurrent family the close frame is held inside the transport while other goroutines call the write API, then the history (each operation carrying the wire position of its frame) must be linearizable and nothing may follow the close frame; a further family sends closes through four paths after an earlier failed transport write.",
         "schedules sampled; porcupine v1.3.0 as history checker", "3/C09"),
 "C10": ("fault_enumeration", "runtime monitoring with fault injection at every transport operation index x {error, timeout, short write}; byte-exact prefix comparison with the fault-free run (replayed mask keys); deadline values used as identifiers in the transport log",
         "For each generated program (with invalid requests and distinct deadlines) every SetWriteDeadline/Write index is faulted in six ways (plain error, timeout, short write, errors wrapping os.ErrNoDeadline / io.ErrShortWrite, short write + timeout); written bytes must be a valid-frame prefix of the clean run, nothing is written afterwards, every later message-level call fails; invalid requests write nothing; every Write is preceded by the expected deadline; no write-side call touches the read deadline; stale writers closed at the end fail after a fault.",
         "mask keys replayed through VerifSetMaskRand; programs sampled, fault points exhaustive per program", "3/C10"),
 "C11": ("exploration", "Go race detector + transport overlap/sequence monitors + independent decoding of both directions + porcupine history check under goroutine stress; gate scenario for WriteControl deadlines; shared PreparedMessage/pool scenario",
         "W1/W2/W3 scenario families run in a plain and a -race build; zero race reports attributed to the library, no overlapping transport writes, contiguous well-formed frames, intact round trip, linearizable write-side history, at every transport Write of an own frame the armed write deadline is the one in force for that frame (values compared, not the clock), WriteControl returning a timeout error (and leaving no frame) while the connection is held.",
         "schedules sampled (thousands of short runs); the race detector sees only synchronisation it observes", "3/C11"),
 "C12": ("exploration", "runtime monitoring: requests from a handshake grammar classified MUST_ACCEPT/MUST_REJECT/UNSPECIFIED by an independent classifier; Upgrade run on a Hijacker spy and through a real net/http server; strict independent parsing of the 101 (line accounting against injection, Accept digest)",
         "Seeded exploration of the request grammar x Upgrader settings x hostile responseHeader values; accepted iff classified valid (UNSPECIFIED not judged), 101 strictly parsed with exact line count, refusals never hijack and carry 4xx/403/426 (through Upgrader.Error exactly once when set); the deployment context (Unix-socket listener, TLS, remote address, headers pre-set by middleware) is varied and must not matter.",
         "classifier internal/props/c12.go; strict parser internal/httpx; SHA-1/base64 digest typed from the RFC", "3/C12"),
 "C13": ("exploration", "runtime monitoring: (Host, Origin) pairs constructed so the expected verdict is known by construction, through direct Upgrade calls and a real net/http server (absolute-form targets for exotic hosts)",
         "Origins are built from the Host by identity/case variation (must be upgraded) or by edits, label changes, port changes, userinfo/path/fragment tricks, Unicode look-alikes, different invalid bytes, junk (must get 403); extra request headers and the deployment context (Unix-socket listener, TLS, remote address, CORS headers pre-set on the ResponseWriter) are varied and must not matter.",
         "construction guarantees the expected answer; percent-encoded and scheme-less origins not generated", "3/C13"),
 "C14": ("exploration", "runtime monitoring: Dial over a scripted conn; the request it writes is parsed by a strict independent parser; generated reply plans (stale/wrong Accept, status, token lists, bodies, malformed heads)",
         "Seeded exploration of URLs with known expected request target, Dialer settings, caller headers and reply plans; request line/Host/protocol headers/key freshness judged from the wire; Dial must connect iff all four reply conditions hold for this request's key, otherwise ErrBadHandshake with status, headers and <=1024 body bytes (also when the body is cut by a reset or timeout, also with every httptrace hook set); a cookie jar and several caller Cookie values must coexist; one header map dialed repeatedly is neither modified nor changes the next request.",
         "strict parser internal/httpx; key distinctness checked per worker process", "3/C14"),
 "C15": ("exploration", "runtime monitoring: real Dialer against real Upgrader over an in-memory transport with the wire watched for RSV1; raw extension offers against the Upgrader; scripted 101 replies against the Dialer; behavioural probes (does it send RSV1, does it accept a compressed frame)",
         "All four EnableCompression pairs are connected and generated toggle/level/message sequences (WriteMessage, closed writers, writers left to the implicit close, toggles with a writer open) cross in both directions; announcement only if offered and enabled; compression in use iff the 101 carried both no_context_takeover parameters; endpoints agree (probed with single-frame and fragmented compressed messages incl. empty fragments; the offer may also come from the application's request header).",
         "behavioural probes instead of field inspection", "3/C15"),
 "C16": ("fault_enumeration", "runtime monitoring with fault injection at every transport operation index x {error, timeout, EOF} during Dial (direct, CONNECT proxy, TLS, TLS through tunnel) and Upgrade; blocking peers under a 50 ms timeout; Close/deadline log of the scripted conn",
         "Every operation of every configuration is faulted; failure => nil conn, error, transport closed (before hijack: untouched); success => open and no deadline armed; with a timeout configured every I/O operation runs under a deadline no later than it; a silent peer at each phase makes Dial return; dial hooks NetDialContext, NetDial and NetDialTLSContext; the caller's context is cancelled at every point of the handshake; a transport that ignores deadlines lets a handshake end after its limit (success must still mean an open connection).",
         "TLS peers in-process over an in-memory pipe; the TLS handshake inside the dial function is judged by the blocking form", "3/C16"),
 "C18": ("exploration", "runtime monitoring: configuration matrix executed against in-process loopback backends, HTTP(S) CONNECT and SOCKS5 proxies that record requests, TLS state and connection provenance, and recording dial hooks",
         "Thorough enumerates the whole matrix (proxy kind x scheme x 8 hook subsets x credentials x certificate x host form x refusal); both tiers enumerate all cells (thorough three times) incl. Host-header overrides, a second dial after a refusal and untrusted backends visited earlier by a Dialer that trusts them; both tiers add all cells of the dial paths that take the proxy from the process environment (DefaultDialer, nil *Dialer, Proxy: http.ProxyFromEnvironment x scheme x certificate x port form). Exactly one CONNECT with the right target/authorization, backend only through the proxy, WebSocket request only inside verified TLS for wss, no request to unverified peers, first hop by the applicable hook.",
         "loopback TCP; in-process CA (ECDSA P-256)", "3/C18"),
 "C19": ("exploration", "runtime monitoring: one PreparedMessage sent to generated sets of connections (role x negotiated x enabled x level), sequentially and from concurrent goroutines; each write log decoded independently and compared with the original payload and a WriteMessage twin",
         "Seeded exploration of message type/size x connection sets x send/toggle/level/mutation sequences; decoded type, payload and compressed flag must match the settings at the time of the call and a twin WriteMessage; in the concurrent mode every connection also has a WriteControl pinger and a dawdling transport (frames must stay contiguous).",
         "frame boundaries not compared", "3/C19"),
 "C20": ("exploration", "runtime monitoring: instrumented BufferPool (event log, identity, poison on Put, audit) checked after every API call against the open-writer state; transport faults at every operation index; many connections sharing one LIFO pool concurrently with every wire log decoded",
         "Per connection the outstanding-buffer count must equal 1 exactly while a message is open and 0 otherwise after every call, Put must return the buffer taken, released buffers stay poisoned, and all sharing connections' streams stay well-formed; programs include ReadFrom sources that fail half-way, unencodable WriteJSON values, abandoned writers and Conn.Close with a message open.",
         "VerifPoolBuf hook to open the pool value; schedules of the shared family sampled", "3/C20"),
}

PENDING_REASON = "monitor not built yet in this round (planned, see DESIGN.md section 9); no claim is made"

def main():
    props = [json.loads(l) for l in open(os.path.join(ROOT, "properties.jsonl"))]
    hooks_commits = subprocess.run(["git", "-C", "/repo", "log", "--format=%H", "--grep=^verif:"], capture_output=True, text=True).stdout.split()
    m = {
        "version": 1,
        "setup_cmd": "./setup.sh",
        "hooks": {
            "guard": "verif",
            "enable": "go build -tags verif (harness module /verif with `replace github.com/gorilla/websocket => /repo`); the only hook file is /repo/verif_hooks.go (//go:build verif)",
            "baseline_off_cmd": "cd /repo && GOFLAGS=-mod=mod GOPROXY=off GOSUMDB=off GOTOOLCHAIN=local go test -json -vet=off -count=1 -timeout 25m ./...",
            "source_commits": hooks_commits,
            "add_only": True,
        },
        "engines": [
            {"name": "wsverif", "path": "cmd/wsverif", "serves_properties": sorted(CHECKS), "kind_free_text": "Go runner+worker binary (plus fuzz/ native Go fuzz targets for C07 thorough): seeded case generation, child-process workers, monitors over scripted net.Conn / handler / pool / mask-source logs, independent RFC codec, evidence writer; built per variant (plain, race, asan, checkptr) from /repo's working tree on every invocation"},
        ],
        "checks": [],
        "not_applicable": [],
        "notes": "All checks: ./check.sh <id> <tier>; exit 0 held on everything explored, exit 1 + VIOLATION line, exit 2 infrastructure/harness fault. VERIF_SEED selects the case list. Known findings: known_findings.json.",
    }
    for p in props:
        pid = p["id"]
        if pid in CHECKS:
            cat, tech, text, note, ref = CHECKS[pid]
            m["checks"].append({
                "property_id": pid,
                "quick_cmd": f"./check.sh {pid} quick",
                "thorough_cmd": f"./check.sh {pid} thorough",
                "evidence_file": f"/verif/evidence/{pid}.json",
                "replay_cmd_template": "./check.sh replay {path}",
                "engine": "wsverif",
                "level_claimed": {"category": cat, "text": text, "design_ref": "DESIGN.md section " + ref},
                "level_note": note,
                "technique": tech,
            })
        else:
            m["not_applicable"].append({"property_id": pid, "reason": PENDING_REASON})
    with open(os.path.join(ROOT, "MANIFEST.json"), "w") as f:
        json.dump(m, f, indent=1)
        f.write("\n")
    with open(os.path.join(ROOT, "MANIFEST.hooks"), "w") as f:
        f.write("guard: Go build tag `verif`\n")
        f.write("files: /repo/verif_hooks.go (//go:build verif; add-only, touches no existing line)\n")
        f.write("exports: VerifNewConn, VerifMaskRand, VerifSetMaskRand, VerifPoolBuf, VerifPoolValue\n")
        f.write("commits:\n")
        for c in hooks_commits:
            f.write("  " + c + "\n")
        f.write("guard off: `go test ./...` in /repo does not compile the file; the 80-test baseline is unaffected\n")

if __name__ == "__main__":
    main()
