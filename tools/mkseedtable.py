#!/usr/bin/env python3
"""Regenerates the table of DESIGN.md section 13.1 from seeded/*/meta.json."""
import json, glob, os, re
root = os.path.dirname(os.path.dirname(os.path.abspath(__file__)))
rows = []
for d in sorted(glob.glob(os.path.join(root, "seeded", "*"))):
    sid = os.path.basename(d)
    meta = json.load(open(os.path.join(d, "meta.json")))
    files = sorted(set(re.findall(r"^diff --git a/(\S+)", open(os.path.join(d, "patch.diff")).read(), re.M)))
    res = meta["result"]
    if " | " in res:
        res = res.split(" | ", 1)[1]
    rows.append("| %s | %s | %s | %s |" % (sid, meta["breaks_property"], ", ".join(files), res.replace("|", "/")))
p = os.path.join(root, "DESIGN.md")
s = open(p).read()
head = "| seeded id | property | touches | outcome (quick tier) |\n|---|---|---|---|\n"
a = s.index(head) + len(head)
b = s.index("\n### 13.2")
s = s[:a] + "\n".join(rows) + "\n" + s[b:]
open(p, "w").write(s)
print(len(rows), "rows")
