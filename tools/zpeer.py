#!/usr/bin/env python3
"""zlib peer for the verification harness (python3 standard library only).

Line protocol on stdin/stdout, one request per line, fields separated by spaces:
  D <level> <wbits> <memlevel> <strategy> <mode> <hexdata>
      deflate hexdata as a raw stream (wbits 9..15 => -wbits) and answer with the
      permessage-deflate message payload (RFC 7692 7.2.1) in hex.
      mode: 0 = one compress() then Z_SYNC_FLUSH, strip 00 00 ff ff
            1 = as 0 but with a Z_SYNC_FLUSH in the middle of the data
            2 = as 0 but with a Z_FULL_FLUSH in the middle
            3 = finish the stream (BFINAL=1 block) and append the empty
                non-final stored block, strip 00 00 ff ff  (RFC 7692 7.2.3.4)
  I <hexpayload>
      inflate payload + 00 00 ff ff as a raw stream; answer hex plaintext
Answers: "OK <hex>" or "ERR <message>".
"""
import sys, zlib, binascii

def deflate(level, wbits, memlevel, strategy, mode, data):
    co = zlib.compressobj(level, zlib.DEFLATED, -wbits, memlevel, strategy)
    out = b""
    if mode in (1, 2) and len(data) > 1:
        h = len(data) // 2
        out += co.compress(data[:h])
        out += co.flush(zlib.Z_SYNC_FLUSH if mode == 1 else zlib.Z_FULL_FLUSH)
        out += co.compress(data[h:])
    else:
        out += co.compress(data)
    if mode == 3:
        out += co.flush(zlib.Z_FINISH)
        out += b"\x00"          # empty stored block header (BFINAL=0, BTYPE=00, padding); 00 00 ff ff stripped
        return out
    out += co.flush(zlib.Z_SYNC_FLUSH)
    assert out.endswith(b"\x00\x00\xff\xff")
    return out[:-4]

def inflate(payload):
    do = zlib.decompressobj(-15)
    out = do.decompress(payload + b"\x00\x00\xff\xff")
    return out

def main():
    for line in sys.stdin:
        f = line.split()
        try:
            if not f:
                continue
            if f[0] == "D":
                data = binascii.unhexlify(f[6]) if len(f) > 6 else b""
                r = deflate(int(f[1]), int(f[2]), int(f[3]), int(f[4]), int(f[5]), data)
                sys.stdout.write("OK " + binascii.hexlify(r).decode() + "\n")
            elif f[0] == "I":
                data = binascii.unhexlify(f[1]) if len(f) > 1 else b""
                sys.stdout.write("OK " + binascii.hexlify(inflate(data)).decode() + "\n")
            else:
                sys.stdout.write("ERR unknown request\n")
        except Exception as e:  # noqa
            sys.stdout.write("ERR " + repr(e).replace("\n", " ") + "\n")
        sys.stdout.flush()

if __name__ == "__main__":
    main()
