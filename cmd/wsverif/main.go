// wsverif is both the runner (parent) and the worker (child) of every check.
//
//	wsverif run <Cxx> <quick|thorough>     run a check, write evidence, exit 0/1/2
//	wsverif worker ...                     (internal) run a shard of cases
//	wsverif replay <file>                  re-execute one recorded case
//	wsverif list                           list registered properties
package main

import (
	"bytes"
	"encoding/binary"
	"encoding/json"
	"fmt"
	"os"
	"os/exec"
	"path/filepath"
	"regexp"
	"runtime"
	"runtime/debug"
	"runtime/pprof"
	"sort"
	"strconv"
	"strings"
	"sync"
	"sync/atomic"
	"time"

	"verif/internal/core"
	"verif/internal/gen"
	_ "verif/internal/props"
)

func main() {
	if len(os.Args) < 2 {
		usage()
	}
	switch os.Args[1] {
	case "run":
		if len(os.Args) != 4 {
			usage()
		}
		os.Exit(runCheck(os.Args[2], os.Args[3]))
	case "worker":
		os.Exit(worker(os.Args[2:]))
	case "replay":
		if len(os.Args) != 3 {
			usage()
		}
		os.Exit(replay(os.Args[2]))
	case "list":
		for _, id := range core.IDs() {
			fmt.Println(id)
		}
	default:
		usage()
	}
}

func usage() {
	fmt.Fprintln(os.Stderr, "usage: wsverif run <Cxx> <quick|thorough> | replay <file> | list")
	os.Exit(2)
}

func envInt(name string, def int64) int64 {
	if v := os.Getenv(name); v != "" {
		if n, err := strconv.ParseInt(v, 10, 64); err == nil {
			return n
		}
	}
	return def
}

func root() string {
	if r := os.Getenv("VERIF_ROOT"); r != "" {
		return r
	}
	return "/verif"
}

// ---------------------------------------------------------------- worker

type summary struct {
	Done         bool               `json:"done"`
	Evals        int64              `json:"evals"`
	Counters     map[string]int64   `json:"counters"`
	Samples      []interface{}      `json:"samples"`
	Viols        []core.Violation   `json:"viols"`
	Inconclusive int64              `json:"inconclusive"`
	Notes        []string           `json:"notes"`
	HarnessFault []string           `json:"harness_fault"`
	Cases        int                `json:"cases"`
	SlowestS     float64            `json:"slowest_s"`
	SlowestIdx   int                `json:"slowest_idx"`
	Extra        map[string]float64 `json:"extra,omitempty"`
}

// worker <prop> <tier> <variant> <seed> <shard> <nshards> <skipfile> <outprefix>
// runs case indices i with i % nshards == shard, skipping those listed in
// skipfile (one index per line, may not exist).
func worker(a []string) int {
	if len(a) != 8 {
		fmt.Fprintln(os.Stderr, "worker: bad args")
		return 2
	}
	p := core.Registry[a[0]]
	if p == nil {
		fmt.Fprintln(os.Stderr, "worker: unknown property", a[0])
		return 2
	}
	tier, variant := a[1], a[2]
	seed, _ := strconv.ParseUint(a[3], 10, 64)
	shard, _ := strconv.Atoi(a[4])
	nsh, _ := strconv.Atoi(a[5])
	skip := map[int]bool{}
	if b, err := os.ReadFile(a[6]); err == nil {
		for _, l := range strings.Fields(string(b)) {
			if n, err := strconv.Atoi(l); err == nil {
				skip[n] = true
			}
		}
	}
	prefix := a[7]
	solo := -1
	if v := os.Getenv("WSVERIF_SOLO"); v != "" {
		solo, _ = strconv.Atoi(v)
	}
	n := p.Cases(tier, variant)
	jf, err := os.OpenFile(prefix+".journal", os.O_CREATE|os.O_WRONLY|os.O_TRUNC, 0o644)
	if err != nil {
		fmt.Fprintln(os.Stderr, "worker:", err)
		return 2
	}
	hf, err := os.OpenFile(prefix+".hashes", os.O_CREATE|os.O_WRONLY|os.O_APPEND, 0o644)
	if err != nil {
		fmt.Fprintln(os.Stderr, "worker:", err)
		return 2
	}
	timeout := time.Duration(p.CaseTimeoutS) * time.Second
	if timeout == 0 {
		timeout = 120 * time.Second
	}
	if variant != "plain" {
		timeout *= 3
	}
	if solo >= 0 {
		timeout *= 2
	}
	sum := summary{Counters: map[string]int64{}}
	shardStart := time.Now()
	var hbuf []byte
	for idx := 0; idx < n; idx++ {
		if solo >= 0 {
			if idx != solo {
				continue
			}
		} else if idx%nsh != shard || skip[idx] {
			continue
		}
		jf.WriteAt([]byte(fmt.Sprintf("%-12d", idx)), 0)
		t0 := time.Now()
		out := runCase(p, seed, tier, variant, idx, timeout, jf)
		if d := time.Since(t0).Seconds(); d > sum.SlowestS {
			sum.SlowestS, sum.SlowestIdx = d, idx
		}
		sum.Cases++
		sum.Evals += out.Evals
		for k, v := range out.Counters {
			sum.Counters[k] += v
		}
		for _, s := range out.Samples {
			if len(sum.Samples) < 3 {
				sum.Samples = append(sum.Samples, s)
			}
		}
		for _, v := range out.Viols {
			v.Idx = idx
			v.Variant = variant
			if strings.HasPrefix(v.Signature, "harness:") {
				sum.HarnessFault = append(sum.HarnessFault, v.What)
				continue
			}
			if len(sum.Viols) < 50 {
				sum.Viols = append(sum.Viols, v)
			}
		}
		sum.Inconclusive += out.Inconclusive
		for _, s := range out.Notes {
			if len(sum.Notes) < 5 {
				sum.Notes = append(sum.Notes, s)
			}
		}
		hbuf = hbuf[:0]
		for _, h := range out.Hashes {
			hbuf = binary.LittleEndian.AppendUint64(hbuf, h)
		}
		hf.Write(hbuf)
		if solo < 0 && (len(sum.Viols) >= 8 || (len(sum.Viols) >= 2 && time.Since(shardStart) > 2*time.Minute)) {
			// the run is decided; on a tree that violates the property the remaining cases
			// would only add more of the same (and, for hangs, minutes each)
			sum.Notes = append(sum.Notes, fmt.Sprintf("shard %d stopped after %d violations (case %d of %d)", shard, len(sum.Viols), idx, n))
			break
		}
	}
	hf.Close()
	sum.Done = true
	b, _ := json.Marshal(sum)
	if err := os.WriteFile(prefix+".json", b, 0o644); err != nil {
		fmt.Fprintln(os.Stderr, "worker:", err)
		return 2
	}
	return 0
}

// attribute decides from a stack whether the failure is the library's or the
// harness's: the topmost frame that is neither runtime nor stdlib decides.
func attribute(stack string) (lib bool, frame string) {
	for _, l := range strings.Split(stack, "\n") {
		l = strings.TrimSpace(l)
		if l == "" || strings.HasPrefix(l, "/") || strings.HasPrefix(l, "goroutine ") {
			continue
		}
		if i := strings.Index(l, " in "); strings.HasPrefix(l, "#") && i >= 0 { // sanitizer frame
			l = l[i+4:]
		}
		switch {
		case strings.HasPrefix(l, "github.com/gorilla/websocket."):
			f := l
			if i := strings.LastIndex(f, "("); i > 0 {
				f = f[:i] // drop the argument list
			}
			if i := strings.Index(f, " "); i > 0 {
				f = f[:i]
			}
			return true, strings.TrimPrefix(f, "github.com/gorilla/websocket.")
		case strings.HasPrefix(l, "verif/"), strings.HasPrefix(l, "main."):
			return false, l
		}
	}
	return false, ""
}

func runCase(p *core.Prop, seed uint64, tier, variant string, idx int, timeout time.Duration, jf *os.File) *core.Out {
	out := core.NewOut()
	done := make(chan struct{})
	lastBeat := time.Now().UnixNano()
	beatTimeout := time.Duration(p.BeatTimeoutS) * time.Second
	if variant != "plain" {
		beatTimeout *= 3
	}
	if os.Getenv("WSVERIF_SOLO") != "" {
		beatTimeout *= 2
	}
	go func() {
		defer close(done)
		defer func() {
			if r := recover(); r != nil {
				st := string(debug.Stack())
				// drop the frames of the recover machinery itself
				if i := strings.Index(st, "panic("); i >= 0 {
					st = st[i:]
					if j := strings.Index(st, "\n"); j >= 0 {
						st = st[j+1:]
					}
					if j := strings.Index(st, "\n"); j >= 0 {
						st = st[j+1:]
					}
				}
				lib, frame := attribute(st)
				if lib {
					out.Violate("panic:"+frame, fmt.Sprintf("library panicked: %v", r), map[string]interface{}{"panic": fmt.Sprint(r), "stack": st})
				} else {
					out.Violate("harness:panic", fmt.Sprintf("harness panic in case %d: %v\n%s", idx, r, st), nil)
				}
			}
		}()
		ctx := &core.Ctx{Seed: seed, Tier: tier, Variant: variant, Prop: p.ID, Idx: idx, R: gen.For(seed, p.ID+"/"+variant, idx)}
		ctx.Beat = func() { atomic.StoreInt64(&lastBeat, time.Now().UnixNano()) }
		out.OnEval = ctx.Beat
		p.Run(ctx, out)
	}()
	t := time.NewTimer(timeout)
	defer t.Stop()
	tick := time.NewTicker(time.Second)
	defer tick.Stop()
	fired := ""
	for fired == "" {
		select {
		case <-done:
			return out
		case <-t.C:
			fired = fmt.Sprintf("exceeded %v", timeout)
		case <-tick.C:
			if beatTimeout > 0 {
				if d := time.Since(time.Unix(0, atomic.LoadInt64(&lastBeat))); d > beatTimeout {
					fired = fmt.Sprintf("made no progress for %v (one execution normally takes milliseconds)", d.Round(time.Second))
				}
			}
		}
	}
	{
		fmt.Fprintf(os.Stderr, "WATCHDOG case %d %s\n", idx, fired)
		pprof.Lookup("goroutine").WriteTo(os.Stderr, 2)
		if jf != nil {
			jf.WriteAt([]byte(fmt.Sprintf("%-12d HANG", idx)), 0)
			jf.Sync()
		}
		os.Exit(3)
	}
	return out
}

// ---------------------------------------------------------------- runner

type knownFinding struct {
	Property  string `json:"property"`
	Status    string `json:"status"` // "known" or "fixed"
	Signature string `json:"signature"`
	Commit    string `json:"commit,omitempty"`
	What      string `json:"what"`
}

func loadKnown() []knownFinding {
	var kf struct {
		Findings []knownFinding `json:"findings"`
	}
	b, err := os.ReadFile(filepath.Join(root(), "known_findings.json"))
	if err != nil {
		return nil
	}
	if err := json.Unmarshal(b, &kf); err != nil {
		fmt.Fprintln(os.Stderr, "known_findings.json:", err)
		os.Exit(2)
	}
	return kf.Findings
}

type shardState struct {
	variant string
	shard   int
	skip    []int
	prefix  string
}

func runCheck(id, tier string) int {
	p := core.Registry[id]
	if p == nil {
		fmt.Fprintln(os.Stderr, "unknown property", id)
		return 2
	}
	if tier != "quick" && tier != "thorough" {
		usage()
	}
	t0 := time.Now()
	seed := uint64(envInt("VERIF_SEED", 1))
	bindir := os.Getenv("WSVERIF_BINDIR")
	if bindir == "" {
		bindir = filepath.Join(root(), ".build", "bin")
	}
	work := filepath.Join(root(), ".build", "run", fmt.Sprintf("%s-%s-%d", id, tier, os.Getpid()))
	os.RemoveAll(work)
	if err := os.MkdirAll(work, 0o755); err != nil {
		fmt.Fprintln(os.Stderr, err)
		return 2
	}
	defer os.RemoveAll(work)

	maxW := p.MaxWorkers
	if maxW == 0 {
		maxW = 16
	}
	if n := runtime.NumCPU(); n < maxW {
		maxW = n
	}
	if n := int(envInt("WSVERIF_WORKERS", 0)); n > 0 {
		maxW = n
	}

	agg := summary{Counters: map[string]int64{}}
	distinct := map[uint64]struct{}{}
	var harness []string
	var raceBlocks []string
	casesTotal := 0
	variants := p.Variants(tier)
	if only := strings.Fields(os.Getenv("WSVERIF_ONLY_VARIANTS")); len(only) > 0 {
		// selftests only (regression over seeded changes): a restricted run decides less
		var keep []string
		for _, v := range variants {
			for _, o := range only {
				if v == o {
					keep = append(keep, v)
				}
			}
		}
		if len(keep) > 0 {
			variants = keep
		}
	}
	for _, variant := range variants {
		bin := filepath.Join(bindir, variant, "wsverif")
		if _, err := os.Stat(bin); err != nil {
			fmt.Fprintf(os.Stderr, "missing binary for variant %s: %v\n", variant, err)
			return 2
		}
		n := p.Cases(tier, variant)
		casesTotal += n
		if n == 0 {
			continue
		}
		w := maxW
		if n < w {
			w = n
		}
		var mu sync.Mutex
		var wg sync.WaitGroup
		for sh := 0; sh < w; sh++ {
			wg.Add(1)
			go func(sh int) {
				defer wg.Done()
				st := &shardState{variant: variant, shard: sh, prefix: filepath.Join(work, fmt.Sprintf("%s-%d", variant, sh))}
				res := superviseShard(p, bin, tier, seed, st, w, work)
				mu.Lock()
				defer mu.Unlock()
				mergeSummary(&agg, res.sum)
				harness = append(harness, res.harness...)
				for _, h := range res.hashes {
					distinct[h] = struct{}{}
				}
			}(sh)
		}
		wg.Wait()
		if variant == "race" {
			raceBlocks = append(raceBlocks, collectRace(work)...)
		}
		hung := false
		for _, v := range agg.Viols {
			hung = hung || v.Signature == "hang"
		}
		if hung && variant != variants[len(variants)-1] {
			// the sanitizer builds have three times the watchdog period; a confirmed hang
			// already decides the run
			agg.Notes = append(agg.Notes, "remaining build variants skipped after a confirmed hang in variant "+variant)
			break
		}
	}

	// Race reports: one violation per distinct library-attributed report.
	agg.Counters["race_reports_total"] += 0
	if len(raceBlocks) > 0 {
		seen := map[string]bool{}
		for _, blk := range raceBlocks {
			sig, lib := raceSignature(blk)
			if !lib {
				harness = append(harness, "data race outside the library (harness):\n"+blk)
				continue
			}
			agg.Counters["race_reports_total"]++
			if seen[sig] {
				continue
			}
			seen[sig] = true
			agg.Viols = append(agg.Viols, core.Violation{Signature: "race:" + sig, What: "data race reported by the Go race detector in library code", Detail: blk, Idx: -1, Variant: "race"})
		}
	}

	// Known findings.
	known := loadKnown()
	var unknown []core.Violation
	printedKnown := map[string]bool{}
	for _, v := range agg.Viols {
		matched := false
		for _, k := range known {
			if k.Property == id && k.Status == "known" && k.Signature == v.Signature {
				matched = true
				if !printedKnown[k.Signature] {
					printedKnown[k.Signature] = true
					fmt.Printf("KNOWN-FINDING: property=%s %s\n", id, k.What)
				}
			}
		}
		if !matched {
			unknown = append(unknown, v)
		}
	}

	// Replays for unknown violations.
	repDir := filepath.Join(root(), "replays", id)
	var replayPaths []string
	perSig := map[string]int{}
	written := 0
	for _, v := range unknown {
		if perSig[v.Signature] >= 3 || written >= 15 {
			continue
		}
		perSig[v.Signature]++
		written++
		os.MkdirAll(repDir, 0o755)
		rp := map[string]interface{}{"property": id, "tier": tier, "seed": seed, "variant": v.Variant, "idx": v.Idx, "signature": v.Signature, "what": v.What, "detail": v.Detail}
		b, _ := json.MarshalIndent(rp, "", " ")
		name := fmt.Sprintf("%016x.json", core.Hash(fmt.Sprintf("%s|%d|%s|%d|%s", tier, seed, v.Variant, v.Idx, v.Signature)))
		path := filepath.Join(repDir, name)
		os.WriteFile(path, b, 0o644)
		replayPaths = append(replayPaths, path)
		fmt.Printf("VIOLATION property=%s replay=%s\n", id, path)
		fmt.Printf("  signature=%s what=%s\n", v.Signature, oneLine(v.What, 400))
	}

	// Evidence.
	wall := time.Since(t0).Seconds()
	cov := map[string]interface{}{
		"evaluations":         agg.Evals,
		"distinct_nontrivial": len(distinct),
		"rule":                p.Rule,
		"samples":             agg.Samples,
		"cases":               casesTotal,
		"variants":            variants,
		"observed":            agg.Counters,
		"inconclusive":        agg.Inconclusive,
		"known_findings_seen": len(printedKnown),
		"slowest_case_s":      agg.SlowestS,
	}
	if p.Exhaustive {
		cov["exhaustive"] = true
	}
	if p.Explanation != "" {
		cov["explanation"] = p.Explanation
	}
	if len(agg.Notes) > 0 {
		cov["notes"] = agg.Notes
	}
	if cov["samples"] == nil || len(agg.Samples) == 0 {
		cov["samples"] = []interface{}{"(no sample recorded)"}
	}
	ev := map[string]interface{}{
		"property_id": id,
		"tier":        tier,
		"seed":        seed,
		"level":       p.Level,
		"coverage":    cov,
		"assumptions": p.Assumptions,
		"wall_s":      wall,
		"violations":  len(unknown),
	}
	os.MkdirAll(filepath.Join(root(), "evidence"), 0o755)
	eb, _ := json.MarshalIndent(ev, "", " ")
	if err := os.WriteFile(filepath.Join(root(), "evidence", id+".json"), eb, 0o644); err != nil {
		fmt.Fprintln(os.Stderr, err)
		return 2
	}

	fmt.Printf("%s %s seed=%d: cases=%d evaluations=%d distinct_nontrivial=%d inconclusive=%d violations=%d known=%d wall=%.1fs\n",
		id, tier, seed, casesTotal, agg.Evals, len(distinct), agg.Inconclusive, len(unknown), len(printedKnown), wall)
	keys := make([]string, 0, len(agg.Counters))
	for k := range agg.Counters {
		keys = append(keys, k)
	}
	sort.Strings(keys)
	for _, k := range keys {
		fmt.Printf("  observed %s=%d\n", k, agg.Counters[k])
	}
	if len(unknown) > 0 {
		hist := map[string]int{}
		for _, v := range unknown {
			hist[v.Signature]++
		}
		for k, n := range hist {
			fmt.Printf("  violation signature %s x%d\n", k, n)
		}
		return 1
	}
	if len(harness) > 0 {
		for i, h := range harness {
			if i < 5 {
				fmt.Fprintf(os.Stderr, "HARNESS FAULT: %s\n", oneLine(h, 3000))
			}
		}
		return 2
	}
	for _, k := range p.Required {
		if agg.Counters[k] == 0 {
			fmt.Fprintf(os.Stderr, "INFRASTRUCTURE: monitor observed no %q events; nothing was decided\n", k)
			return 2
		}
	}
	if agg.Evals == 0 {
		fmt.Fprintln(os.Stderr, "INFRASTRUCTURE: no evaluations")
		return 2
	}
	return 0
}

func oneLine(s string, n int) string {
	s = strings.ReplaceAll(s, "\n", " | ")
	if len(s) > n {
		s = s[:n] + "..."
	}
	return s
}

func mergeSummary(a *summary, s summary) {
	a.Evals += s.Evals
	a.Cases += s.Cases
	for k, v := range s.Counters {
		a.Counters[k] += v
	}
	for _, x := range s.Samples {
		if len(a.Samples) < 4 {
			a.Samples = append(a.Samples, x)
		}
	}
	a.Viols = append(a.Viols, s.Viols...)
	a.Inconclusive += s.Inconclusive
	for _, n := range s.Notes {
		if len(a.Notes) < 8 {
			a.Notes = append(a.Notes, n)
		}
	}
	if s.SlowestS > a.SlowestS {
		a.SlowestS, a.SlowestIdx = s.SlowestS, s.SlowestIdx
	}
}

type shardResult struct {
	sum     summary
	harness []string
	hashes  []uint64
}

// superviseShard runs a worker for one shard, restarting it past a case that
// killed the process or hung.
func superviseShard(p *core.Prop, bin, tier string, seed uint64, st *shardState, nsh int, work string) shardResult {
	var res shardResult
	res.sum.Counters = map[string]int64{}
	for attempt := 0; attempt < 6; attempt++ {
		prefix := fmt.Sprintf("%s-a%d", st.prefix, attempt)
		skipFile := prefix + ".skip"
		var sb strings.Builder
		for _, i := range st.skip {
			fmt.Fprintln(&sb, i)
		}
		os.WriteFile(skipFile, []byte(sb.String()), 0o644)
		code, stderr := spawn(bin, st.variant, work, "", p.ID, tier, st.variant, strconv.FormatUint(seed, 10), strconv.Itoa(st.shard), strconv.Itoa(nsh), skipFile, prefix)
		res.hashes = append(res.hashes, readHashes(prefix+".hashes")...)
		if code == 0 {
			var s summary
			b, err := os.ReadFile(prefix + ".json")
			if err == nil && json.Unmarshal(b, &s) == nil && s.Done {
				mergeSummary(&res.sum, s)
				res.harness = append(res.harness, s.HarnessFault...)
				return res
			}
			res.harness = append(res.harness, "worker exited 0 without a summary: "+stderr)
			return res
		}
		// The worker died. Which case?
		jb, _ := os.ReadFile(prefix + ".journal")
		fields := strings.Fields(string(jb))
		if len(fields) == 0 {
			res.harness = append(res.harness, fmt.Sprintf("worker died (exit %d) before its first case: %s", code, stderr))
			return res
		}
		idx, _ := strconv.Atoi(fields[0])
		hang := code == 3 || (len(fields) > 1 && fields[1] == "HANG")
		// NOTE: results of cases the dead worker completed before idx are lost
		// except for their hashes; they are re-run below by excluding only idx.
		// To keep it simple the shard restarts from scratch minus the bad cases.
		res.hashes = res.hashes[:0]
		if hang {
			// isolated re-run decides
			code2, stderr2 := spawn(bin, st.variant, work, strconv.Itoa(idx), p.ID, tier, st.variant, strconv.FormatUint(seed, 10), "0", "1", skipFile, prefix+"-solo")
			if code2 == 3 {
				lib := strings.Contains(stderr2, "github.com/gorilla/websocket.")
				if lib {
					res.sum.Viols = append(res.sum.Viols, core.Violation{Signature: "hang", What: "case hangs inside a library call, twice, the second time in isolation", Detail: tail(stderr2, 6000), Idx: idx, Variant: st.variant})
					// a confirmed hang costs two watchdog periods: one per shard is enough
					// to decide; the rest of the shard is abandoned (said in the notes)
					res.sum.Notes = append(res.sum.Notes, fmt.Sprintf("shard %d/%s abandoned after the confirmed hang of case %d", st.shard, st.variant, idx))
					return res
				} else {
					res.harness = append(res.harness, fmt.Sprintf("case %d hangs outside the library: %s", idx, tail(stderr2, 3000)))
				}
			} else if code2 == 0 {
				res.sum.Inconclusive++
				res.sum.Notes = append(res.sum.Notes, fmt.Sprintf("case %d hit the watchdog under load but passed alone", idx))
				var s summary
				if b, err := os.ReadFile(prefix + "-solo.json"); err == nil && json.Unmarshal(b, &s) == nil {
					mergeSummary(&res.sum, s)
				}
			} else {
				res.harness = append(res.harness, fmt.Sprintf("isolated re-run of case %d exited %d: %s", idx, code2, tail(stderr2, 3000)))
			}
		} else {
			marker := regexp.MustCompile(`(?m)^(panic: |fatal error: |unexpected fault address|==\d+==ERROR: AddressSanitizer|SIGSEGV)`)
			loc := marker.FindStringIndex(stderr)
			body := stderr
			if loc != nil {
				body = stderr[loc[0]:]
			}
			// skip the header lines up to the first goroutine/frame listing
			lib, frame := attribute(body)
			first := body
			if i := strings.Index(first, "\n"); i > 0 {
				first = first[:i]
			}
			if lib {
				res.sum.Viols = append(res.sum.Viols, core.Violation{Signature: "crash:" + frame, What: "process died inside library code: " + first, Detail: tail(body, 6000), Idx: idx, Variant: st.variant})
			} else {
				res.harness = append(res.harness, fmt.Sprintf("worker died (exit %d) in case %d outside the library: %s", code, idx, tail(stderr, 4000)))
				return res
			}
		}
		st.skip = append(st.skip, idx)
	}
	res.harness = append(res.harness, "shard restarted too often")
	return res
}

func tail(s string, n int) string {
	if len(s) > n {
		return s[:n] + "\n...[truncated]"
	}
	return s
}

func readHashes(path string) []uint64 {
	b, err := os.ReadFile(path)
	if err != nil {
		return nil
	}
	out := make([]uint64, 0, len(b)/8)
	for i := 0; i+8 <= len(b); i += 8 {
		out = append(out, binary.LittleEndian.Uint64(b[i:]))
	}
	return out
}

func spawn(bin, variant, work, solo string, args ...string) (int, string) {
	cmd := exec.Command(bin, append([]string{"worker"}, args...)...)
	var eb bytes.Buffer
	cmd.Stderr = &eb
	cmd.Stdout = &eb
	cmd.Env = os.Environ()
	if solo != "" {
		cmd.Env = append(cmd.Env, "WSVERIF_SOLO="+solo)
	}
	switch variant {
	case "race":
		cmd.Env = append(cmd.Env, "GORACE=halt_on_error=0 history_size=3 log_path="+filepath.Join(work, "racelog"))
	case "asan":
		cmd.Env = append(cmd.Env, "ASAN_OPTIONS=detect_leaks=0:abort_on_error=0:halt_on_error=1")
	}
	cmd.Env = append(cmd.Env, "GOTRACEBACK=all")
	err := cmd.Run()
	if cmd.Process != nil {
		// the worker may have installed its in-process CA as system root (C18)
		os.Remove(filepath.Join(root(), ".build", "ca", fmt.Sprintf("ca-%d.pem", cmd.Process.Pid)))
	}
	code := 0
	if err != nil {
		if ee, ok := err.(*exec.ExitError); ok {
			code = ee.ExitCode()
			if code < 0 {
				code = 128
			}
		} else {
			return 127, err.Error()
		}
	}
	return code, eb.String()
}

func collectRace(work string) []string {
	files, _ := filepath.Glob(filepath.Join(work, "racelog.*"))
	var blocks []string
	for _, f := range files {
		b, err := os.ReadFile(f)
		if err != nil {
			continue
		}
		parts := strings.Split(string(b), "==================")
		for _, part := range parts {
			if strings.Contains(part, "WARNING: DATA RACE") {
				blocks = append(blocks, strings.TrimSpace(part))
			}
		}
	}
	return blocks
}

var fnLine = regexp.MustCompile(`^\s+([A-Za-z0-9_./\-]+(?:\.\([^)]*\))?(?:\.[A-Za-z0-9_]+)+(?:\.func\d+(?:\.\d+)*)?)\(`)

// raceSignature de-duplicates a report by the first library frame of each of
// its two access stacks, and says whether library code is involved at all.
func raceSignature(blk string) (string, bool) {
	var firsts []string
	inStack := false
	for _, l := range strings.Split(blk, "\n") {
		t := strings.TrimSpace(l)
		switch {
		case strings.HasPrefix(t, "Read at "), strings.HasPrefix(t, "Write at "), strings.HasPrefix(t, "Previous read at "), strings.HasPrefix(t, "Previous write at "),
			strings.HasPrefix(t, "Atomic "), strings.HasPrefix(t, "Previous atomic "):
			inStack = true
			firsts = append(firsts, "")
		case strings.HasPrefix(t, "Goroutine "):
			inStack = false
		case inStack && strings.HasPrefix(t, "github.com/gorilla/websocket."):
			if firsts[len(firsts)-1] == "" {
				f := strings.TrimPrefix(t, "github.com/gorilla/websocket.")
				if i := strings.LastIndex(f, "("); i > 0 {
					f = f[:i]
				}
				firsts[len(firsts)-1] = f
			}
		}
	}
	lib := false
	for _, f := range firsts {
		if f != "" {
			lib = true
		}
	}
	sort.Strings(firsts)
	return strings.Join(firsts, "<->"), lib
}

// ---------------------------------------------------------------- replay

func replay(path string) int {
	b, err := os.ReadFile(path)
	if err != nil {
		fmt.Fprintln(os.Stderr, err)
		return 2
	}
	var rp struct {
		Property string `json:"property"`
		Tier     string `json:"tier"`
		Seed     uint64 `json:"seed"`
		Variant  string `json:"variant"`
		Idx      int    `json:"idx"`
	}
	if err := json.Unmarshal(b, &rp); err != nil {
		fmt.Fprintln(os.Stderr, err)
		return 2
	}
	p := core.Registry[rp.Property]
	if p == nil || rp.Idx < 0 {
		fmt.Fprintln(os.Stderr, "replay: not a single-case violation (e.g. a race report); re-run the check")
		return 2
	}
	if rp.Variant == "" {
		rp.Variant = "plain"
	}
	out := runCase(p, rp.Seed, rp.Tier, rp.Variant, rp.Idx, 10*time.Minute, nil)
	for _, v := range out.Viols {
		d, _ := json.MarshalIndent(v, "", " ")
		fmt.Printf("VIOLATION property=%s replay=%s\n%s\n", rp.Property, path, d)
	}
	fmt.Printf("replayed %s idx=%d variant=%s: evaluations=%d violations=%d\n", rp.Property, rp.Idx, rp.Variant, out.Evals, len(out.Viols))
	if len(out.Viols) > 0 {
		return 1
	}
	return 0
}
