// Native Go fuzz targets for C07 (run by `./check.sh C07 thorough`). Each
// target calls the same driver the deterministic generator uses.
package fuzz

import (
	"testing"

	"verif/internal/props"
)

func report(t *testing.T, sig, what string) {
	if sig != "" {
		t.Fatalf("VERIF-VIOLATION %s %s", sig, what)
	}
}

func FuzzFrames(f *testing.F) {
	f.Add(byte(0), []byte("\x81\x05hello"))
	f.Add(byte(1), []byte("\x81\x85\x01\x02\x03\x04iglho"))
	f.Add(byte(2), []byte("\xc1\x07\xf2\x48\xcd\xc9\xc9\x07\x00"))
	f.Add(byte(3), []byte("\x01\x83\x00\x00\x00\x00abc\x89\x80\x00\x00\x00\x00\x80\x82\x00\x00\x00\x00de\x88\x82\x00\x00\x00\x00\x03\xe8"))
	f.Add(byte(0x24), []byte("\x82\x7f\x7f\xff\xff\xff\xff\xff\xff\xff"))
	f.Add(byte(0x0a), []byte("\x81\x7e\x01\x00"))
	f.Fuzz(func(t *testing.T, cfg byte, data []byte) {
		if len(data) > 1<<14 {
			return
		}
		sig, what, _ := props.DriveFrames(cfg, data, false)
		report(t, sig, what)
	})
}

func FuzzDialReply(f *testing.F) {
	f.Add(byte(0), []byte("HTTP/1.1 101 Switching Protocols\r\nUpgrade: websocket\r\nConnection: Upgrade\r\nSec-WebSocket-Accept: $ACCEPT$\r\n\r\n\x81\x02hi"))
	f.Add(byte(1), []byte("HTTP/1.1 101 X\r\nUpgrade: websocket\r\nConnection: Upgrade\r\nSec-WebSocket-Accept: $ACCEPT$\r\nSec-WebSocket-Extensions: permessage-deflate; server_no_context_takeover; client_no_context_takeover\r\n\r\n"))
	f.Add(byte(2), []byte("HTTP/1.1 400 Bad\r\nContent-Length: 3\r\n\r\nbad"))
	f.Add(byte(3), []byte("HTTP/1.1 200 OK\r\nTransfer-Encoding: chunked\r\n\r\n5\r\nhello\r\n0\r\n\r\n"))
	f.Fuzz(func(t *testing.T, cfg byte, data []byte) {
		if len(data) > 1<<14 {
			return
		}
		sig, what, _ := props.DriveDialReply(cfg, data, false)
		report(t, sig, what)
	})
}

func FuzzProxyReply(f *testing.F) {
	f.Add(byte(0), []byte("HTTP/1.1 200 Connection established\r\n\r\n"))
	f.Add(byte(1), []byte("HTTP/1.1 407 Proxy Authentication Required\r\nContent-Length: 0\r\n\r\n"))
	f.Add(byte(0), []byte("HTTP/1.0 200 \r\n\r\n"))
	f.Add(byte(0), []byte("HTTP/1.1 502 Bad Gateway\r\n\r\n"))
	f.Fuzz(func(t *testing.T, cfg byte, data []byte) {
		if len(data) > 1<<14 {
			return
		}
		sig, what, _ := props.DriveProxyReply(cfg, data, false)
		report(t, sig, what)
	})
}

func FuzzHeaders(f *testing.F) {
	f.Add(byte(0), "keep-alive, Upgrade", "x")
	f.Add(byte(5), "permessage-deflate; server_max_window_bits=\"10\", foo; a=\"b\\\"c\"", "bar")
	f.Add(byte(0x85), "a=\"", "foo; bar=\"baz")
	f.Add(byte(6), "https://EXAMPLE.test:443/p", "")
	f.Add(byte(3), "dGhlIHNhbXBsZSBub25jZQ==", "")
	f.Add(byte(4), "chat, superchat", "v2")
	f.Fuzz(func(t *testing.T, which byte, v, v2 string) {
		if len(v) > 1<<12 || len(v2) > 1<<12 {
			return
		}
		sig, what, _ := props.DriveHeaders(which, v, v2, false)
		report(t, sig, what)
	})
}
