#!/bin/bash
# Builds the worker binaries of every variant (warms the Go build cache). Offline.
cd "$(dirname "$0")"
exec ./check.sh build plain race asan checkptr
